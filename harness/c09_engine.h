// C09: generic history engines for heap-like components (allocate / free /
// clear), serial (operations assigned to random pool threads, one at a time)
// and storm (concurrent allocate/free from on_each with cross-thread frees).
#pragma once

#include "c09_common.h"

namespace c09 {

struct Req {
  size_t size   = 0;
  uint32_t aux  = 0;
  bool mainOnly = false; // must run on the main thread outside a parallel region
};

struct Adapter {
  std::string comp;
  size_t align        = 8;
  bool threadSafe     = false; // one instance may be used concurrently from pool threads
  bool canClear       = false; // clear() retires every live block of the instance
  bool accumulates    = false; // memory is not reused before clear() (bump heaps)
  bool deallocReuses  = true;  // a deallocated block may be handed out again
  bool hasExtra       = false;
  bool pageSized      = false; // every block costs >= 2 MB
  size_t liveBytesCap = 24u << 20;
  unsigned liveCap    = 300;
  size_t accumCap     = 48u << 20; // accumulating heaps: clear when this much was handed out
  virtual ~Adapter() {}
  virtual void setup(CaseCtx&, Rng&, bool /*storm*/, unsigned /*nthreads*/) {}
  virtual Req next(Rng&, bool storm)                                       = 0;
  virtual size_t cost(const Req& r) { return r.size; } // memory really consumed by the request
  virtual void alloc(CaseCtx&, const Req&, int tid, std::vector<Blk>& out) = 0;
  virtual void dealloc(CaseCtx&, Blk&, int tid)                            = 0;
  virtual void clear(CaseCtx&, int /*tid*/) {}
  virtual bool extra(CaseCtx&, Rng&, int /*tid*/) { return false; }
  // free-list class of a block for the re-balancing tail (-1: none)
  virtual int listClass(const Blk&) { return -1; }
  virtual Req reqForClass(int) { return Req(); }
  virtual void describe(J&) {}
  virtual void addObs(J&) {}
  virtual std::string sigPart() { return ""; }
  virtual void teardown(CaseCtx&) {}
};

inline size_t blkCost(Adapter& A, const Blk& b) {
  Req r;
  r.size = b.len;
  r.aux  = b.aux;
  return A.cost(r);
}

// ------------------------------------------------------------------ serial
inline CaseResult runSerial(Harness& H, long k, Rng& rng, Adapter& A) {
  CaseCtx c(H, A.comp);
  unsigned maxT = c.maxT;
  // thread set of this case
  std::vector<int> T;
  unsigned nT = (unsigned)rng.pick({1, 2, 2, 3, 4, 4, 8, 16});
  nT          = std::min(nT, maxT);
  {
    std::vector<int> all;
    for (unsigned t = 0; t < maxT; ++t)
      all.push_back((int)t);
    for (unsigned i = 0; i < nT; ++i) {
      unsigned j = i + (unsigned)rng.below(all.size() - i);
      std::swap(all[i], all[j]);
      T.push_back(all[i]);
    }
    if (rng.below(3) == 0)
      T.push_back(-1); // main thread outside a region
  }
  int maxTid = 0;
  for (int t : T)
    maxTid = std::max(maxTid, t);
  unsigned nops = H.thorough ? (unsigned)rng.pick({60, 200, 600, 1500}) : (unsigned)rng.pick({30, 80, 200, 500});
  nops          = (unsigned)std::min<long>(nops, H.paramInt("maxops", 1000000));
  unsigned sticky = (unsigned)rng.pick({0, 50, 80, 95}); // percent: stay on the same thread
  A.setup(c, rng, false, maxTid + 1);
  J params;
  params.kv("component", A.comp).kv("mode", "serial").kv("ops", nops).raw("threads", jarr(T)).kv("sticky", sticky)
      .kv("maxT", maxT).kv("sockets", c.nsock);
  A.describe(params);
  H.begin(k, params.str());
  galois::setActiveThreads(maxTid + 1);

  std::vector<Blk> live;
  size_t liveBytes = 0, accum = 0;
  std::map<int, std::map<int, long>> net; // class -> pool thread -> frees - allocs
  auto poolTid = [](int t) { return t < 0 ? 0 : t; };
  uint64_t steps = 0, tainted = 0;

  auto doAlloc = [&](const Req& r, int tid) {
    size_t before = live.size();
    runOn(r.mainOnly ? -1 : tid, [&] { A.alloc(c, r, r.mainOnly ? -1 : tid, live); });
    for (size_t i = before; i < live.size();) {
      Blk& b = live[i];
      int cl = A.listClass(b);
      if (cl >= 0 && b.p)
        net[cl][poolTid(r.mainOnly ? -1 : tid)]--;
      if (!b.ok()) { // zero length or violation: never touched again, never freed
        if (b.len)
          ++tainted;
        live.erase(live.begin() + i);
        continue;
      }
      liveBytes += blkCost(A, b);
      accum += blkCost(A, b);
      ++i;
    }
  };
  auto doFree = [&](size_t idx, int tid) {
    Blk b = live[idx];
    live[idx] = live.back();
    live.pop_back();
    liveBytes -= std::min(liveBytes, blkCost(A, b));
    int cl = A.listClass(b);
    if (cl >= 0)
      net[cl][poolTid(tid)]++;
    if (poolTid(tid) != poolTid(b.owner))
      c.xfrees.fetch_add(1, std::memory_order_relaxed);
    runOn(tid, [&] { A.dealloc(c, b, tid); });
  };
  auto checkAll = [&](const char* when) {
    c.quiescentChecks.fetch_add(1, std::memory_order_relaxed);
    for (auto& b : live)
      checkCanary(c, b, when);
  };
  auto doClear = [&](int tid) {
    // every live block of the instance dies with clear(): retire them first
    for (auto& b : live)
      beforeFree(c, b, false);
    live.clear();
    liveBytes = 0;
    accum     = 0;
    c.forgetFreed();
    runOn(tid, [&] { A.clear(c, tid); });
    c.clears.fetch_add(1, std::memory_order_relaxed);
  };

  int cur = T[rng.below(T.size())];
  for (unsigned step = 0; step < nops; ++step) {
    if (rng.below(100) >= sticky)
      cur = T[rng.below(T.size())];
    unsigned x = (unsigned)rng.below(100);
    if (A.accumulates && accum > A.accumCap && A.canClear) {
      doClear(cur);
    } else if (x < 50) {
      Req r = A.next(rng, false);
      if (live.size() < A.liveCap && liveBytes + A.cost(r) <= A.liveBytesCap &&
          (!A.accumulates || accum + A.cost(r) <= A.accumCap + (8u << 20)))
        doAlloc(r, cur);
      else if (!live.empty())
        doFree(rng.below(live.size()), cur);
    } else if (x < 84) {
      if (!live.empty()) {
        size_t idx = rng.below(live.size());
        // big blocks mostly go home so per-thread free lists stay balanced
        int tid = cur;
        if (blkCost(A, live[idx]) >= (256u << 10) && rng.below(4))
          tid = live[idx].owner;
        doFree(idx, tid);
      }
    } else if (x < 90) {
      checkAll("quiescent");
    } else if (x < 93 && A.canClear) {
      doClear(cur);
    } else if (x < 98 && A.hasExtra) {
      runOn(cur, [&] { A.extra(c, rng, cur); });
    } else if (!live.empty()) {
      checkCanary(c, live[rng.below(live.size())], "random");
    }
    ++steps;
    progress();
    if (c.perKey.size() > 8 || c.poisoned.load(std::memory_order_relaxed))
      break; // the instance is known to be in a garbage state / enough witnesses: retire what is live and stop
  }
  checkAll("final");
  while (!live.empty())
    doFree(rng.below(live.size()), T[rng.below(T.size())]);
  // re-balancing tail: give every thread's free list back what it had, so
  // process-global per-thread free lists do not grow from case to case
  unsigned tail = 0;
  for (auto& cls : net) {
    for (;;) {
      int from = -1, to = -1;
      for (auto& kv : cls.second) {
        if (kv.second > 0 && from < 0)
          from = kv.first;
        if (kv.second < 0 && to < 0)
          to = kv.first;
      }
      if (from < 0 || to < 0 || tail >= 4000)
        break;
      Req r = A.reqForClass(cls.first);
      std::vector<Blk> tmp;
      runOn(from, [&] { A.alloc(c, r, from, tmp); });
      cls.second[from]--;
      for (auto& b : tmp) {
        if (!b.ok())
          continue;
        runOn(to, [&] { A.dealloc(c, b, to); });
        cls.second[to]++;
        if (from != to)
          c.xfrees.fetch_add(1, std::memory_order_relaxed);
      }
      ++tail;
    }
  }
  if (A.canClear)
    doClear(T[rng.below(T.size())]);
  A.teardown(c);
  c.flush();

  CaseResult R;
  R.nontrivial = c.maxLive.load() >= 2 && (c.frees.load() + c.clears.load()) >= 1;
  R.sig = A.comp + "|serial|" + A.sigPart() + "|T" + std::to_string(T.size()) + "|x" + bucket(c.xfrees.load()) + "|r" +
          bucket(c.reuses.load()) + "|c" + bucket(c.clears.load()) + "|live" + bucket(c.maxLive.load());
  J obs;
  commonObs(obs, c).kv("steps", steps).kv("serial_cases", 1).kv("rebalance_ops", tail).kv("tainted_blocks", tainted)
      .kv("max_live", c.maxLive.load());
  A.addObs(obs);
  R.obs = obs.str();
  return R;
}

// ------------------------------------------------------------------ storm
struct alignas(64) Mailbox {
  std::mutex m;
  std::vector<Blk> v;
};

inline CaseResult runStorm(Harness& H, long k, Rng& rng, Adapter& A) {
  CaseCtx c(H, A.comp);
  unsigned maxT = c.maxT;
  unsigned n    = (unsigned)rng.pick({2, 3, 4, 8, 16, 16});
  n             = std::max(1u, std::min(n, maxT));
  unsigned ops  = H.thorough ? (unsigned)rng.pick({300, 1500, 6000}) : (unsigned)rng.pick({200, 800, 2500});
  ops           = (unsigned)std::min<long>(ops, H.paramInt("maxops", 1000000));
  if (A.pageSized)
    ops = std::min(ops, 120u); // page-sized blocks: memory traffic, keep it short
  unsigned delayPct = (unsigned)rng.pick({0, 0, 2, 10});
  unsigned spinProb = (unsigned)rng.pick({0, 0, 2048, 16384});
  uint64_t sseed    = rng.next();
  A.setup(c, rng, true, n);
  J params;
  params.kv("component", A.comp).kv("mode", "storm").kv("threads", n).kv("ops_per_thread", ops).kv("delayPct", delayPct)
      .kv("spinProb", spinProb).kv("maxT", maxT).kv("sockets", c.nsock);
  A.describe(params);
  H.begin(k, params.str());
  galois::setActiveThreads(n);
  perturb_case(sseed, 0, spinProb, 20);

  std::vector<Mailbox> mail(n);
  unsigned capPer      = std::max(4u, A.liveCap / n);
  size_t bytesCapPer   = std::max<size_t>(A.liveBytesCap / n, 1);
  size_t accumCapPer   = A.accumCap / n;
  std::vector<std::map<int, long>> netPer(n); // per thread: class -> frees - allocs
  std::atomic<uint64_t> tainted{0}, opsDone{0};

  galois::on_each([&](unsigned tid, unsigned) {
    Rng lr(mix(sseed, 0x5151 + tid));
    std::vector<Blk> mine;
    size_t myBytes = 0, myAccum = 0;
    auto& net = netPer[tid];
    auto freeOne = [&](Blk& b, bool foreign) {
      int cl = A.listClass(b);
      if (cl >= 0)
        net[cl]++;
      if (foreign)
        c.xfrees.fetch_add(1, std::memory_order_relaxed);
      A.dealloc(c, b, (int)tid);
    };
    auto drain = [&] {
      std::vector<Blk> got;
      {
        std::lock_guard<std::mutex> lg(mail[tid].m);
        got.swap(mail[tid].v);
      }
      for (auto& b : got) {
        checkCanary(c, b, "received");
        freeOne(b, (int)tid != b.owner);
      }
    };
    for (unsigned i = 0; i < ops && !c.poisoned.load(std::memory_order_relaxed); ++i) {
      unsigned x = (unsigned)lr.below(100);
      if (x < 45) {
        Req r = A.next(lr, true);
        if (!r.mainOnly && mine.size() < capPer && myBytes + A.cost(r) <= bytesCapPer &&
            (!A.accumulates || myAccum + A.cost(r) <= accumCapPer)) {
          size_t before = mine.size();
          A.alloc(c, r, (int)tid, mine);
          for (size_t j = before; j < mine.size();) {
            int cl = A.listClass(mine[j]);
            if (cl >= 0 && mine[j].p)
              net[cl]--;
            if (!mine[j].ok()) {
              if (mine[j].len)
                tainted.fetch_add(1, std::memory_order_relaxed);
              mine.erase(mine.begin() + j);
              continue;
            }
            myBytes += blkCost(A, mine[j]);
            myAccum += blkCost(A, mine[j]);
            ++j;
          }
        } else if (!mine.empty()) {
          size_t idx = lr.below(mine.size());
          Blk b      = mine[idx];
          mine[idx]  = mine.back();
          mine.pop_back();
          myBytes -= std::min(myBytes, blkCost(A, b));
          freeOne(b, false);
        }
      } else if (x < 68) {
        if (!mine.empty()) {
          size_t idx = lr.below(mine.size());
          Blk b      = mine[idx];
          mine[idx]  = mine.back();
          mine.pop_back();
          myBytes -= std::min(myBytes, blkCost(A, b));
          freeOne(b, false);
        }
      } else if (x < 82) {
        if (!mine.empty() && n > 1) { // hand a live block to another thread, which frees it
          size_t idx = lr.below(mine.size());
          Blk b      = mine[idx];
          mine[idx]  = mine.back();
          mine.pop_back();
          myBytes -= std::min(myBytes, blkCost(A, b));
          unsigned u = (unsigned)lr.below(n - 1);
          if (u >= tid)
            ++u;
          std::lock_guard<std::mutex> lg(mail[u].m);
          mail[u].v.push_back(b);
        }
      } else if (x < 92) {
        drain();
      } else if (x < 97) {
        if (!mine.empty())
          checkCanary(c, mine[lr.below(mine.size())], "random");
      }
      if (delayPct && lr.below(100) < delayPct) {
        if (lr.below(4) == 0)
          sched_yield();
        else
          busy_delay_ns(100 + lr.below(5000));
      }
      progress();
    }
    for (auto& b : mine)
      checkCanary(c, b, "end-of-storm");
    for (auto& b : mine)
      freeOne(b, false);
    drain();
    opsDone.fetch_add(ops, std::memory_order_relaxed);
  });
  perturb_off();
  // leftovers sent after the receiver had finished: freed by the main thread
  std::map<int, std::map<int, long>> net;
  for (unsigned t = 0; t < n; ++t)
    for (auto& kv : netPer[t])
      net[kv.first][(int)t] += kv.second;
  for (unsigned t = 0; t < n; ++t) {
    for (auto& b : mail[t].v) {
      checkCanary(c, b, "leftover");
      int cl = A.listClass(b);
      if (cl >= 0)
        net[cl][0]++;
      if (b.owner != 0)
        c.xfrees.fetch_add(1, std::memory_order_relaxed);
      A.dealloc(c, b, -1);
    }
    mail[t].v.clear();
  }
  unsigned tail = 0;
  for (auto& cls : net) {
    for (;;) {
      int from = -1, to = -1;
      for (auto& kv : cls.second) {
        if (kv.second > 0 && from < 0)
          from = kv.first;
        if (kv.second < 0 && to < 0)
          to = kv.first;
      }
      if (from < 0 || to < 0 || tail >= 20000)
        break;
      Req r = A.reqForClass(cls.first);
      std::vector<Blk> tmp;
      runOn(from, [&] { A.alloc(c, r, from, tmp); });
      cls.second[from]--;
      for (auto& b : tmp) {
        if (!b.ok())
          continue;
        runOn(to, [&] { A.dealloc(c, b, to); });
        cls.second[to]++;
      }
      ++tail;
    }
  }
  if (A.canClear) {
    A.clear(c, -1);
    c.clears.fetch_add(1, std::memory_order_relaxed);
  }
  A.teardown(c);
  c.flush();

  CaseResult R;
  R.nontrivial = n >= 2 && c.maxLive.load() >= 2 && c.frees.load() >= 1;
  R.sig = A.comp + "|storm|" + A.sigPart() + "|n" + std::to_string(n) + "|x" + bucket(c.xfrees.load()) + "|r" +
          bucket(c.reuses.load()) + "|d" + std::to_string(delayPct) + "|live" + bucket(c.maxLive.load());
  J obs;
  commonObs(obs, c).kv("storm_ops", opsDone.load()).kv("storm_cases", 1).kv("rebalance_ops", tail)
      .kv("tainted_blocks", tainted.load()).kv("storm_threads", n).kv("max_live", c.maxLive.load());
  A.addObs(obs);
  R.obs = obs.str();
  return R;
}

} // namespace c09
