// C11: linear family, representative subset of the template matrix (quick + thorough)
#include "c11_fam_linear.h"

namespace c11 {

void registerLinear() {
  regLin<Lin<void>>("lock", L_ALL);
  regLin<Lin<uint32_t>>("lock", L_ALL);
  regLin<Lin<uint64_t, true, true>>("nolock+numa", L_READ | L_SORTDATA);
  regLin<Lin<E12, false, false, true, true>>("ool+id", L_ALL);
  regLin<Lin<E12, false, true>>("lock+numa", L_SORTDATA | L_SORTCUSTOM);
  regLin<Lin<float, false, true>>("lock+numa", L_READ);
  regLin<Lin<void, true, false, false, false, void>>("nolock+voidnode", L_READ | L_SORTCUSTOM);
  regLin<Lin<uint32_t, false, true, true, true>>("ool+id+numa", L_READ);
}

} // namespace c11
