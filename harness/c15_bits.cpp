// C15 — DynamicBitSet (concurrent set/reset/test, reset(begin,end) at every
// alignment, bitwise_or/and/xor, count, getOffsets) and the atomic helpers
// (atomicMin/Max/Add/Subtract + their non-atomic siblings, CopyableAtomic).
//
// Oracles: c15ref::BitModel (one byte per bit), sequential folds, and for the
// returned "old" values a serial-history check.
#include "c15_common.h"
#include "c15_ref.h"

#include "galois/Galois.h"
#include "galois/AtomicHelpers.h"
#include "galois/AtomicWrapper.h"
#include "galois/DynamicBitset.h"

#include <cmath>
#include <limits>
#include <set>
#include <thread>

using namespace verif;

namespace c15 {
namespace {

// load a pattern into the real bitset through its public word view
void loadWords(galois::DynamicBitSet& bs, const c15ref::BitModel& m) {
  auto& v = bs.get_vec();
  for (size_t w = 0; w < v.size(); ++w)
    v[w].store(m.word(w), std::memory_order_relaxed);
}
// compares all valid bits; returns -1 or the first differing word
long diffWords(const galois::DynamicBitSet& bs, const c15ref::BitModel& m, uint64_t& got, uint64_t& want) {
  const auto& v = bs.get_vec();
  size_t n      = m.size();
  for (size_t w = 0; w < v.size(); ++w) {
    uint64_t valid = (w * 64 + 64 <= n) ? ~0ull : ((1ull << (n - w * 64)) - 1);
    uint64_t g = v[w].load(std::memory_order_relaxed) & valid, x = m.word(w);
    if (g != x) {
      got  = g;
      want = x;
      return (long)w;
    }
  }
  return -1;
}
std::string hex(uint64_t v) {
  char b[32];
  snprintf(b, sizeof b, "0x%016" PRIx64, v);
  return b;
}
void fillPattern(c15ref::BitModel& m, int pattern, Rng& rng) {
  for (size_t i = 0; i < m.size(); ++i)
    m.b[i] = pattern == 0 ? 1 : pattern == 1 ? (uint8_t)(rng.next() & 1) : (uint8_t)(rng.below(8) != 0);
}

// ---------------------------------------------------------------- reset(begin,end): all pairs for a band of sizes <= 200
void resetExhaustive(Case& c) {
  long band = c.H.paramInt("band", 4);
  std::vector<size_t> sizes;
  for (long j = 0; j < band; ++j)
    sizes.push_back((size_t)((c.k * band + j) % 200) + 1);
  c.begin("DynamicBitSet", J().kv("variant", "reset(begin,end) all pairs").raw("sizes", jarr(sizes)));
  c.seqExhaustive = true;
  c.sig           = "DynamicBitSet|reset-range-exhaustive|n" + std::to_string(sizes[0]);
  for (size_t n : sizes) {
    galois::DynamicBitSet bs;
    bs.resize(n);
    for (int pattern = 0; pattern < 2; ++pattern) {
      c15ref::BitModel init(n);
      fillPattern(init, pattern, c.rng);
      for (size_t b = 0; b < n; ++b)
        for (size_t e = b; e < n; ++e) {
          loadWords(bs, init);
          bs.reset(b, e);
          c15ref::BitModel m = init;
          m.reset_range(b, e);
          uint64_t g, w;
          long dw = diffWords(bs, m, g, w);
          c.seqChecks++;
          if (dw >= 0) {
            c.viol("reset-range-wrong", J().kv("size", n).kv("begin", b).kv("end", e).kv("word", dw)
                                            .kv("got", hex(g)).kv("want", hex(w)).kv("before", hex(init.word(dw))));
            return;
          }
        }
      progress();
    }
  }
  c.add("range_resets", c.seqChecks);
}

// ---------------------------------------------------------------- reset(begin,end): random large, boundary-heavy
void resetLarge(Case& c) {
  size_t n = c.rng.pick({(size_t)1000, (size_t)4096, (size_t)(65536 + c.rng.below(64)), (size_t)200000,
                         (size_t)(c.thorough ? 2000003 : 300007)});
  unsigned ops = 40;
  c.begin("DynamicBitSet", J().kv("variant", "reset(begin,end) random large").kv("size", n).kv("ops", ops));
  c.seqExhaustive = true;
  c.sig           = "DynamicBitSet|reset-range-large|n" + std::to_string(n);
  galois::DynamicBitSet bs;
  bs.resize(n);
  c15ref::BitModel m(n);
  fillPattern(m, 2, c.rng);
  loadWords(bs, m);
  for (unsigned o = 0; o < ops; ++o) {
    size_t b = 64 * c.rng.below(n / 64 + 1) + c.rng.pick({0u, 1u, 31u, 62u, 63u});
    if (c.rng.below(8) == 0)
      b = 0;
    if (b >= n)
      b = n - 1;
    size_t len = c.rng.pick({(size_t)0, (size_t)1, (size_t)62, (size_t)63, (size_t)64, (size_t)65, (size_t)127,
                             (size_t)128, (size_t)c.rng.below(5000), (size_t)c.rng.below(n)});
    size_t e   = b + len;
    if (e >= n || c.rng.below(10) == 0)
      e = n - 1;
    bs.reset(b, e);
    m.reset_range(b, e);
    uint64_t g, w;
    long dw = diffWords(bs, m, g, w);
    c.seqChecks++;
    if (dw >= 0) {
      c.viol("reset-range-wrong", J().kv("size", n).kv("begin", b).kv("end", e).kv("word", dw).kv("got", hex(g)).kv("want", hex(w)));
      return;
    }
    if (o % 8 == 7) { // refill so that later resets have something to clear
      fillPattern(m, 2, c.rng);
      loadWords(bs, m);
    }
    progress();
  }
  c.add("range_resets", ops);
}

// ---------------------------------------------------------------- concurrent reset(begin,end) of disjoint ranges
void resetConcurrent(Case& c) {
  size_t n    = c.rng.pick({(size_t)130, (size_t)1000, (size_t)5000, (size_t)50000});
  size_t cuts = std::min<size_t>(n / 2, c.rng.pick({(size_t)4, (size_t)32, (size_t)400}));
  Plan p      = makePlan(c);
  std::set<size_t> cs;
  while (cs.size() < cuts)
    cs.insert(c.rng.below(n));
  std::vector<std::pair<size_t, size_t>> ranges; // inclusive, disjoint
  size_t prev = 0;
  for (size_t cut : cs) { // range [prev, cut]; sometimes leave a gap
    if (cut < prev)
      continue;
    size_t b = prev, e = cut;
    if (c.rng.below(4) == 0 && e > b)
      b += 1 + c.rng.below(std::min<size_t>(e - b, 70));
    if (b <= e)
      ranges.push_back({b, e});
    prev = cut + 1;
  }
  c.begin("DynamicBitSet", J().kv("variant", "concurrent reset(begin,end) of disjoint ranges").kv("size", n)
                               .kv("ranges", ranges.size()).kv("plan", p.name()).kv("threads", p.threads));
  c.sig = "DynamicBitSet|reset-range-concurrent|n" + std::to_string(n) + "|" + p.name() + "@" + std::to_string(p.threads);
  galois::DynamicBitSet bs;
  bs.resize(n);
  c15ref::BitModel m(n);
  fillPattern(m, (int)c.rng.below(3), c.rng);
  loadWords(bs, m);
  ExecResult res = execPlan(c, p, ranges.size(), [&](uint32_t i, unsigned) { bs.reset(ranges[i].first, ranges[i].second); });
  if (!res.exactlyOnce)
    return;
  for (auto& r : ranges)
    m.reset_range(r.first, r.second);
  c.add("range_resets", ranges.size());
  uint64_t g, w;
  long dw = diffWords(bs, m, g, w);
  if (dw >= 0)
    c.viol("concurrent-range-reset-wrong", J().kv("size", n).kv("word", dw).kv("got", hex(g)).kv("want", hex(w))
                                               .kv("plan", p.name()).kv("workers", res.workers));
}

// ---------------------------------------------------------------- concurrent set / reset / test, then count / getOffsets
bool checkCountOffsets(Case& c, galois::DynamicBitSet& bs, const c15ref::BitModel& m, const char* after) {
  unsigned T = pickThreads(c);
  galois::setActiveThreads(T);
  uint64_t cnt = bs.count();
  if (cnt != m.count()) {
    c.viol("count-wrong", J().kv("after", after).kv("got", cnt).kv("want", m.count()).kv("threads", T).kv("size", m.size()));
    return false;
  }
  std::vector<uint32_t> off = bs.getOffsets(), want = m.offsets();
  if (off != want) {
    c.viol("getOffsets-wrong", J().kv("after", after).kv("got_len", off.size()).kv("want_len", want.size())
                                   .raw("got_head", jarr(off, 8)).raw("want_head", jarr(want, 8)).kv("threads", T).kv("size", m.size()));
    return false;
  }
  c.add("count_getOffsets_checks", 1);
  return true;
}

void bitsConcurrent(Case& c) {
  size_t n    = c.rng.pick({(size_t)64, (size_t)100, (size_t)1000, (size_t)20000});
  size_t nops = c.rng.pick({(size_t)200, (size_t)2000, (size_t)8000});
  Plan p      = makePlan(c);
  c.begin("DynamicBitSet", J().kv("variant", "concurrent set/reset/test").kv("size", n).kv("ops", nops)
                               .kv("plan", p.name()).kv("threads", p.threads).kv("noise", p.noise));
  c.sig = "DynamicBitSet|concurrent|n" + std::to_string(n) + "|" + p.name() + "@" + std::to_string(p.threads);
  // roles: 0 stays 0 (tested), 1 stays 1 (tested), 2 set by >=0 threads (initially 0), 3 reset (initially 1)
  std::vector<uint8_t> role(n);
  for (auto& r : role)
    r = (uint8_t)c.rng.below(4);
  galois::DynamicBitSet bs;
  bs.resize(n);
  c15ref::BitModel m(n);
  for (size_t i = 0; i < n; ++i)
    if (role[i] == 1 || role[i] == 3) {
      bs.set(i);
      m.set(i);
    }
  std::vector<uint32_t> bit(nops);
  std::vector<uint8_t> ret(nops, 0xff);
  size_t hot = c.rng.below(3) == 0 ? std::min<size_t>(n, 64) : n; // sometimes hammer a single word
  for (auto& b : bit)
    b = (uint32_t)c.rng.below(hot);
  ExecResult res = execPlan(c, p, nops, [&](uint32_t i, unsigned) {
    uint32_t b = bit[i];
    switch (role[b]) {
    case 2: ret[i] = bs.set(b); break;
    case 3: ret[i] = bs.reset(b); break;
    default: ret[i] = bs.test(b); break;
    }
  });
  if (!res.exactlyOnce)
    return;
  std::vector<uint32_t> nset(n, 0), firsts(n, 0);
  for (size_t i = 0; i < nops; ++i) {
    uint32_t b = bit[i];
    if (role[b] <= 1) {
      if (ret[i] != role[b]) {
        c.viol("test-wrong", J().kv("bit", b).kv("returned", (int)ret[i]).kv("constant_value", (int)role[b]));
        return;
      }
    } else {
      nset[b]++;
      // set(): old value false exactly once; reset(): old value true exactly once
      if (ret[i] == (role[b] == 2 ? 0 : 1))
        firsts[b]++;
    }
  }
  for (size_t b = 0; b < n; ++b)
    if (role[b] >= 2 && nset[b]) {
      if (firsts[b] != 1) {
        c.viol("old-value-return-wrong", J().kv("bit", b).kv("op", role[b] == 2 ? "set" : "reset").kv("calls", nset[b])
                                             .kv("calls_that_saw_the_initial_value", firsts[b]).kv("plan", p.name()));
        return;
      }
      if (role[b] == 2)
        m.set(b);
      else
        m.reset(b);
    }
  uint64_t g, w;
  long dw = diffWords(bs, m, g, w);
  if (dw >= 0) {
    c.viol("lost-bit-update", J().kv("word", dw).kv("got", hex(g)).kv("want", hex(w)).kv("plan", p.name()).kv("workers", res.workers));
    return;
  }
  for (size_t i = 0; i < n; ++i)
    if (bs.test(i) != m.test(i)) {
      c.viol("test-wrong", J().kv("bit", i).kv("returned", bs.test(i)));
      return;
    }
  c.add("bit_ops", nops);
  checkCountOffsets(c, bs, m, "concurrent set/reset");
}

// ---------------------------------------------------------------- bitwise_or / and / xor, count, getOffsets
void bitsBitwise(Case& c) {
  size_t n = c.rng.pick({(size_t)0, (size_t)1, (size_t)63, (size_t)64, (size_t)65, (size_t)200, (size_t)1000,
                         (size_t)(100000 + c.rng.below(100))});
  int op   = (int)c.rng.below(5);
  static const char* OPS[] = {"bitwise_or", "bitwise_and", "bitwise_and(a,b)", "bitwise_xor", "bitwise_xor(a,b)"};
  unsigned T = pickThreads(c);
  c.begin("DynamicBitSet", J().kv("variant", OPS[op]).kv("size", n).kv("threads", T));
  c.seqExhaustive = true; // the parallelism is inside the library call (do_all / on_each over the active threads)
  c.sig           = std::string("DynamicBitSet|") + OPS[op] + "|n" + std::to_string(n) + "|T" + std::to_string(T);
  galois::DynamicBitSet A, B, C;
  c15ref::BitModel ma(n), mb(n), mc(n);
  A.resize(n);
  B.resize(n);
  C.resize(n);
  for (auto* pr : {&ma, &mb, &mc})
    fillPattern(*pr, (int)c.rng.below(3), c.rng);
  for (size_t i = 0; i < n; ++i) {
    if (ma.test(i)) A.set(i);
    if (mb.test(i)) B.set(i);
    if (mc.test(i)) C.set(i);
  }
  galois::setActiveThreads(T);
  switch (op) {
  case 0: A.bitwise_or(B); break;
  case 1: A.bitwise_and(B); break;
  case 2: A.bitwise_and(B, C); break;
  case 3: A.bitwise_xor(B); break;
  default: A.bitwise_xor(B, C); break;
  }
  for (size_t i = 0; i < n; ++i) {
    bool a = ma.test(i), b = mb.test(i), x = mc.test(i), r;
    switch (op) {
    case 0: r = a | b; break;
    case 1: r = a & b; break;
    case 2: r = b & x; break;
    case 3: r = a ^ b; break;
    default: r = b ^ x; break;
    }
    ma.b[i] = r;
  }
  uint64_t g, w;
  long dw;
  c.seqChecks += 3 * ((n + 63) / 64) + 2;
  if ((dw = diffWords(A, ma, g, w)) >= 0) {
    c.viol("bitwise-wrong", J().kv("op", OPS[op]).kv("size", n).kv("word", dw).kv("got", hex(g)).kv("want", hex(w)).kv("threads", T));
    return;
  }
  if ((dw = diffWords(B, mb, g, w)) >= 0 || (dw = diffWords(C, mc, g, w)) >= 0) {
    c.viol("bitwise-modifies-operand", J().kv("op", OPS[op]).kv("word", dw));
    return;
  }
  c.add("bitwise_ops", 1);
  checkCountOffsets(c, A, ma, OPS[op]);
}

// ================================================================ atomic helpers
template <typename T>
const char* tn() {
  if (std::is_same_v<T, int>) return "int";
  if (std::is_same_v<T, int64_t>) return "int64_t";
  if (std::is_same_v<T, unsigned>) return "unsigned";
  if (std::is_same_v<T, uint64_t>) return "uint64_t";
  if (std::is_same_v<T, float>) return "float";
  return "double";
}
template <typename T>
T genVal(Rng& rng, int flavour) {
  constexpr bool fp = std::is_floating_point_v<T>, sg = std::is_signed_v<T>;
  T mag;
  if (fp)
    mag = (T)((double)(1 + rng.below(1000000)) * std::pow(2.0, (double)rng.range(-12, 12)));
  else
    mag = (T)(1 + rng.below(sizeof(T) == 4 ? 2000000000u : 4000000000000000000ull));
  switch (flavour) {
  case 0: return sg ? (T)(-mag) : mag; // all negative
  case 1: return mag;
  case 2: return (T)(sg ? (int)rng.range(-3, 3) : (int)rng.below(6)); // many ties
  default: return sg && rng.below(2) ? (T)(-mag) : mag;
  }
}

template <typename T>
void atomicMinMax(Case& c) {
  unsigned K  = 1 + (unsigned)c.rng.below(4);
  size_t nops = c.rng.pick({(size_t)2, (size_t)50, (size_t)1000, (size_t)6000});
  int flavour = (int)c.rng.below(6); // 4,5: trend (every op lowers a min target / raises a max target: all ops write)
  Plan p      = makePlan(c);
  c.begin("atomicMinMax", J().kv("type", tn<T>()).kv("targets", K).kv("ops", nops).kv("flavour", flavour)
                              .kv("plan", p.name()).kv("threads", p.threads).kv("noise", p.noise));
  c.sig = std::string("atomicMinMax|") + tn<T>() + "|f" + std::to_string(flavour) + "|K" + std::to_string(K) + "|" + p.name() +
          "@" + std::to_string(p.threads);
  struct alignas(64) Tgt {
    std::atomic<T> a;
    bool isMin;
    T init, model;
  };
  std::vector<Tgt> tg(K);
  for (auto& t : tg) {
    t.isMin = c.rng.below(2);
    t.init  = c.rng.below(3) == 0 ? (t.isMin ? std::numeric_limits<T>::max() : std::numeric_limits<T>::lowest())
                                  : genVal<T>(c.rng, flavour);
    if (flavour >= 4 && c.rng.below(2))
      t.init = t.isMin ? (T)(2000000) : (T)(1);
    t.model = t.init;
    t.a.store(t.init, std::memory_order_relaxed);
  }
  std::vector<uint8_t> which(nops);
  std::vector<T> val(nops), ret(nops);
  for (size_t i = 0; i < nops; ++i) {
    which[i] = (uint8_t)c.rng.below(K);
    val[i]   = genVal<T>(c.rng, flavour);
    Tgt& t   = tg[which[i]];
    if (flavour >= 4) // 1000000 +- i with a little jitter: nearly every operation is a new extreme
      val[i] = t.isMin ? (T)(1000000 - (long)i + (long)c.rng.below(4)) : (T)(1000000 + (long)i - (long)c.rng.below(4));
    t.model  = t.isMin ? (val[i] < t.model ? val[i] : t.model) : (val[i] > t.model ? val[i] : t.model);
  }
  std::vector<std::vector<uint32_t>> order(c.maxT); // execution order per thread
  ExecResult res = execPlan(c, p, nops, [&](uint32_t i, unsigned tid) {
    Tgt& t = tg[which[i]];
    ret[i] = t.isMin ? galois::atomicMin(t.a, val[i]) : galois::atomicMax(t.a, val[i]);
    order[tid].push_back(i);
  });
  if (!res.exactlyOnce)
    return;
  c.add("atomic_ops", nops);
  for (unsigned j = 0; j < K; ++j) {
    T fin = tg[j].a.load(std::memory_order_relaxed);
    if (fin != tg[j].model) {
      c.viol("wrong-final", J().kv("op", tg[j].isMin ? "atomicMin" : "atomicMax").kv("type", tn<T>()).kv("got", show(fin))
                                .kv("want", show(tg[j].model)).kv("init", show(tg[j].init)).kv("plan", p.name()).kv("workers", res.workers));
      return;
    }
  }
  // returned old values: each is the initial value or a value some op wrote; monotone per (thread,target);
  // never beyond the final value
  std::vector<std::vector<T>> written(K);
  for (unsigned j = 0; j < K; ++j)
    written[j].push_back(tg[j].init);
  for (size_t i = 0; i < nops; ++i)
    written[which[i]].push_back(val[i]);
  for (auto& w : written)
    std::sort(w.begin(), w.end());
  for (unsigned t = 0; t < c.maxT; ++t) {
    // bound[j]: after this thread's previous operation on target j returned `old` having offered v, the target was
    // <= min(old, v) (atomicMin) / >= max(old, v) (atomicMax), and it only moves in that direction
    std::vector<T> last(K);
    std::vector<uint8_t> have(K, 0);
    for (uint32_t i : order[t]) {
      unsigned j = which[i];
      Tgt& g     = tg[j];
      bool okVal = std::binary_search(written[j].begin(), written[j].end(), ret[i]);
      bool okFin = g.isMin ? ret[i] >= g.model : ret[i] <= g.model;
      bool okMon = !have[j] || (g.isMin ? ret[i] <= last[j] : ret[i] >= last[j]);
      if (!okVal || !okFin || !okMon) {
        c.viol("returned-old-value-impossible",
               J().kv("op", g.isMin ? "atomicMin" : "atomicMax").kv("type", tn<T>()).kv("returned", show(ret[i]))
                   .kv("final", show(g.model)).kv("is_a_written_value", okVal).kv("not_beyond_final", okFin)
                   .kv("consistent_with_this_threads_previous_op", okMon).kv("thread", t));
        return;
      }
      last[j] = g.isMin ? (val[i] < ret[i] ? val[i] : ret[i]) : (val[i] > ret[i] ? val[i] : ret[i]);
      have[j] = 1;
    }
  }
}

// Many targets, one offer per (thread, target), all threads walking the targets in the same order and re-aligned
// every 4096 targets: the offers to one target race with each other, and the extreme is equally likely to come from the
// thread whose compare-exchange loses. A lost update stays visible because nothing is offered to the target afterwards.
template <typename T>
void atomicSlots(Case& c) {
  unsigned threads = c.maxT >= 2 ? 2 + (unsigned)c.rng.below(std::min(c.maxT, 16u) - 1) : 1;
  size_t S         = c.rng.pick({(size_t)3000, (size_t)20000, (size_t)60000});
  bool isMin       = c.rng.below(2);
  int flavour      = (int)c.rng.below(4);
  uint64_t salt    = c.rng.next();
  bool bigInit     = c.rng.below(2);
  c.begin("atomicMinMax", J().kv("variant", "slots").kv("type", tn<T>()).kv("targets", (uint64_t)S).kv("threads", threads)
                              .kv("op", isMin ? "atomicMin" : "atomicMax").kv("flavour", flavour));
  c.sig = std::string("atomicMinMax|slots|") + tn<T>() + (isMin ? "|min" : "|max") + "|f" + std::to_string(flavour) + "|S" +
          std::to_string(S) + "@" + std::to_string(threads);
  auto value = [&](unsigned t, size_t sl) {
    Rng r(verif::mix(salt, (uint64_t)t * S + sl));
    return genVal<T>(r, flavour);
  };
  std::vector<std::atomic<T>> slots(S);
  std::vector<T> model(S);
  for (size_t sl = 0; sl < S; ++sl) {
    Rng r(verif::mix(salt ^ 0x5151, sl));
    T init = bigInit ? (isMin ? std::numeric_limits<T>::max() : std::numeric_limits<T>::lowest()) : genVal<T>(r, flavour);
    slots[sl].store(init, std::memory_order_relaxed);
    model[sl] = init;
    for (unsigned t = 0; t < threads; ++t) {
      T v       = value(t, sl);
      model[sl] = isMin ? (v < model[sl] ? v : model[sl]) : (v > model[sl] ? v : model[sl]);
    }
  }
  std::atomic<unsigned> arrived{0};
  std::atomic<unsigned> workers{0};
  galois::setActiveThreads(threads);
  galois::on_each([&](unsigned tid, unsigned numT) {
    workers.fetch_add(1, std::memory_order_relaxed);
    unsigned round = 0;
    for (size_t sl = 0; sl < S; ++sl) {
      if ((sl & 4095) == 0) { // re-align the threads
        ++round;
        arrived.fetch_add(1, std::memory_order_relaxed);
        while (arrived.load(std::memory_order_relaxed) < round * numT) {
          verif::progress();
          std::this_thread::yield();
        }
      }
      T v = value(tid, sl);
      if (isMin)
        galois::atomicMin(slots[sl], v);
      else
        galois::atomicMax(slots[sl], v);
    }
  });
  c.workersMax = std::max(c.workersMax, workers.load());
  c.add("atomic_ops", (uint64_t)S * threads);
  c.add("slot_targets", S);
  for (size_t sl = 0; sl < S; ++sl) {
    T fin = slots[sl].load(std::memory_order_relaxed);
    if (fin != model[sl]) {
      c.viol("wrong-final", J().kv("op", isMin ? "atomicMin" : "atomicMax").kv("type", tn<T>()).kv("got", show(fin))
                                .kv("want", show(model[sl])).kv("target", (uint64_t)sl).kv("plan", "slots").kv("workers", threads));
      return;
    }
  }
}

template <typename T>
void atomicAddSub(Case& c) {
  constexpr bool fp = std::is_floating_point_v<T>, sg = std::is_signed_v<T>;
  unsigned K  = 1 + (unsigned)c.rng.below(3);
  size_t nops = c.rng.pick({(size_t)2, (size_t)50, (size_t)1000, (size_t)6000});
  Plan p      = makePlan(c);
  c.begin("atomicAddSubtract", J().kv("type", tn<T>()).kv("targets", K).kv("ops", nops).kv("plan", p.name())
                                   .kv("threads", p.threads).kv("noise", p.noise));
  c.sig = std::string("atomicAddSubtract|") + tn<T>() + "|K" + std::to_string(K) + "|" + p.name() + "@" + std::to_string(p.threads);
  struct alignas(64) Tgt {
    std::atomic<T> a;
    int mode; // 0 add positive only (history check), 1 subtract positive only (history check), 2 mixed (final only)
    T init, model;
  };
  std::vector<Tgt> tg(K);
  // magnitudes: every partial sum exactly representable / no signed overflow
  int64_t lim = std::is_same_v<T, float> ? 64 : sizeof(T) == 4 ? 1000 : 1000000;
  for (auto& t : tg) {
    t.mode = (int)c.rng.below(3);
    if (!sg && !fp)
      t.init = t.mode == 0 ? (T)c.rng.below(1000) : (T)(lim * (int64_t)nops + c.rng.below(1000)); // no wrap for the history check
    else
      t.init = (T)c.rng.range(-1000, 1000);
    if (!sg && !fp && t.mode == 2 && c.rng.below(2))
      t.init = (T)c.rng.below(10); // unsigned mixed: wraps around zero (well defined)
    t.model = t.init;
    t.a.store(t.init, std::memory_order_relaxed);
  }
  std::vector<uint8_t> which(nops), sub(nops);
  std::vector<T> val(nops), ret(nops);
  for (size_t i = 0; i < nops; ++i) {
    which[i] = (uint8_t)c.rng.below(K);
    Tgt& t   = tg[which[i]];
    val[i]   = (T)(1 + c.rng.below(lim));
    sub[i]   = t.mode == 1 || (t.mode == 2 && c.rng.below(2));
    if (t.mode == 2 && sg && c.rng.below(3) == 0)
      val[i] = (T)(-val[i]); // negative deltas too
    t.model = sub[i] ? (T)(t.model - val[i]) : (T)(t.model + val[i]);
  }
  ExecResult res = execPlan(c, p, nops, [&](uint32_t i, unsigned) {
    Tgt& t = tg[which[i]];
    ret[i] = sub[i] ? galois::atomicSubtract(t.a, val[i]) : galois::atomicAdd(t.a, val[i]);
  });
  if (!res.exactlyOnce)
    return;
  c.add("atomic_ops", nops);
  for (unsigned j = 0; j < K; ++j) {
    T fin = tg[j].a.load(std::memory_order_relaxed);
    if (fin != tg[j].model) {
      c.viol("wrong-final", J().kv("type", tn<T>()).kv("mode", tg[j].mode).kv("got", show(fin)).kv("want", show(tg[j].model))
                                .kv("init", show(tg[j].init)).kv("plan", p.name()).kv("workers", res.workers));
      return;
    }
    if (tg[j].mode == 2)
      continue;
    // serial history: sort by returned old value; each op must start where the previous ended
    std::vector<std::pair<T, T>> h; // (old, delta)
    for (size_t i = 0; i < nops; ++i)
      if (which[i] == j)
        h.push_back({ret[i], val[i]});
    bool add = tg[j].mode == 0;
    std::sort(h.begin(), h.end(), [&](auto& x, auto& y) { return add ? x.first < y.first : x.first > y.first; });
    T cur = tg[j].init;
    for (size_t i = 0; i < h.size(); ++i) {
      if (h[i].first != cur) {
        c.viol("returned-old-values-not-a-serial-history",
               J().kv("type", tn<T>()).kv("op", add ? "atomicAdd" : "atomicSubtract").kv("position", i)
                   .kv("returned", show(h[i].first)).kv("expected_old", show(cur)).kv("plan", p.name()));
        return;
      }
      cur = add ? (T)(cur + h[i].second) : (T)(cur - h[i].second);
    }
  }
}

template <typename T>
bool serialHelpers(Case& c, unsigned iters) {
  auto bad = [&](const char* fn, T a, T b, T got, T want) {
    c.viol("serial-helper-wrong", J().kv("fn", fn).kv("type", tn<T>()).kv("a", show(a)).kv("b", show(b)).kv("got", show(got)).kv("want", show(want)));
    return false;
  };
  for (unsigned it = 0; it < iters; ++it) {
    T a = (T)c.rng.range(-1000, 1000), b = (T)c.rng.range(-1000, 1000);
    if (!std::is_signed_v<T>) {
      a = (T)c.rng.below(2000);
      b = (T)c.rng.below(2000);
    }
    T x;
    std::atomic<T> ax;
    T r;
    c.seqChecks += 10;
    x = a; r = galois::max(x, b);
    if (r != a || x != (a < b ? b : a)) return bad("max(T&,T)", a, b, x, a < b ? b : a);
    ax.store(a); r = galois::max(ax, b);
    if (r != a || ax.load() != (a < b ? b : a)) return bad("max(atomic&,T)", a, b, ax.load(), a < b ? b : a);
    x = a; r = galois::min(x, b);
    if (r != a || x != (a > b ? b : a)) return bad("min(T&,T)", a, b, x, a > b ? b : a);
    ax.store(a); r = galois::min(ax, b);
    if (r != a || ax.load() != (a > b ? b : a)) return bad("min(atomic&,T)", a, b, ax.load(), a > b ? b : a);
    x = a; r = galois::add(x, b);
    if (r != a || x != (T)(a + b)) return bad("add(T&,T)", a, b, x, (T)(a + b));
    ax.store(a); r = galois::add(ax, b);
    if (r != a || ax.load() != (T)(a + b)) return bad("add(atomic&,T)", a, b, ax.load(), (T)(a + b));
    x = a; ax.store(b); r = galois::add(x, ax);
    if (r != a || x != (T)(a + b)) return bad("add(T&,atomic&)", a, b, x, (T)(a + b));
    x = a; r = galois::set(x, b);
    if (r != b || x != b) return bad("set(T&,T)", a, b, x, b);
    ax.store(a); r = galois::set(ax, b);
    if (r != b || ax.load() != b) return bad("set(atomic&,T)", a, b, ax.load(), b);
    x = a; galois::reset(x, b);
    ax.store(a); galois::reset(ax, b);
    if (x != b || ax.load() != b) return bad("reset", a, b, x, b);
    // the atomic forms used serially
    ax.store(a); r = galois::atomicMin(ax, b);
    if (r != a || ax.load() != (a > b ? b : a)) return bad("atomicMin", a, b, ax.load(), a > b ? b : a);
    ax.store(a); r = galois::atomicMax(ax, b);
    if (r != a || ax.load() != (a < b ? b : a)) return bad("atomicMax", a, b, ax.load(), a < b ? b : a);
    ax.store(a); r = galois::atomicAdd(ax, b);
    if (r != a || ax.load() != (T)(a + b)) return bad("atomicAdd", a, b, ax.load(), (T)(a + b));
    ax.store(a); r = galois::atomicSubtract(ax, b);
    if (r != a || ax.load() != (T)(a - b)) return bad("atomicSubtract", a, b, ax.load(), (T)(a - b));
    // CopyableAtomic keeps its value across copies
    galois::CopyableAtomic<T> ca(a), cb(ca), cc;
    cc = cb;
    std::vector<galois::CopyableAtomic<T>> v(3, ca);
    v.resize(100, cb);
    if (cb.load() != a || cc.load() != a || v[0].load() != a || v[99].load() != a)
      return bad("CopyableAtomic copy", a, a, cc.load(), a);
  }
  return true;
}

} // namespace

void run_bits(Case& c, int which) {
  switch (which) {
  case 0: resetExhaustive(c); break;
  case 1: resetLarge(c); break;
  case 2: resetConcurrent(c); break;
  case 3: bitsConcurrent(c); break;
  default: bitsBitwise(c); break;
  }
}

void run_atomics(Case& c, int which) {
  unsigned t = (unsigned)c.rng.below(6);
  if (which == 0 && c.rng.below(3) == 0) {
    switch (t) {
    case 0: atomicSlots<int>(c); break;
    case 1: atomicSlots<int64_t>(c); break;
    case 2: atomicSlots<unsigned>(c); break;
    case 3: atomicSlots<uint64_t>(c); break;
    case 4: atomicSlots<float>(c); break;
    default: atomicSlots<double>(c); break;
    }
  } else if (which == 0) {
    switch (t) {
    case 0: atomicMinMax<int>(c); break;
    case 1: atomicMinMax<int64_t>(c); break;
    case 2: atomicMinMax<unsigned>(c); break;
    case 3: atomicMinMax<uint64_t>(c); break;
    case 4: atomicMinMax<float>(c); break;
    default: atomicMinMax<double>(c); break;
    }
  } else if (which == 1) {
    switch (t) {
    case 0: atomicAddSub<int>(c); break;
    case 1: atomicAddSub<int64_t>(c); break;
    case 2: atomicAddSub<unsigned>(c); break;
    case 3: atomicAddSub<uint64_t>(c); break;
    case 4: atomicAddSub<float>(c); break;
    default: atomicAddSub<double>(c); break;
    }
  } else {
    c.begin("AtomicHelpers", J().kv("variant", "non-atomic min/max/add/set/reset forms, atomic forms used serially, CopyableAtomic"));
    c.seqExhaustive = true;
    c.sig           = "AtomicHelpers|serial|" + std::to_string(t);
    unsigned iters  = 200;
    bool ok = true;
    switch (t) {
    case 0: ok = serialHelpers<int>(c, iters); break;
    case 1: ok = serialHelpers<int64_t>(c, iters); break;
    case 2: ok = serialHelpers<unsigned>(c, iters); break;
    case 3: ok = serialHelpers<uint64_t>(c, iters); break;
    case 4: ok = serialHelpers<float>(c, iters); break;
    default: ok = serialHelpers<double>(c, iters); break;
    }
    c.add("serial_helper_checks", c.seqChecks);
  }
}

} // namespace c15
