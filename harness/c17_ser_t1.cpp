// C17 part A: concrete types, group 1 (scalars, pairs, strings, vectors of trivially copyable elements)
#include "c17_ser.h"
namespace c17 {
void registerTypes1(Registry& R) {
  R.add<bool>("scalar");
  R.add<char>("scalar");
  R.add<int8_t>("scalar");
  R.add<uint16_t>("scalar");
  R.add<int32_t>("scalar");
  R.add<uint32_t>("scalar");
  R.add<int64_t>("scalar");
  R.add<uint64_t>("scalar");
  R.add<float>("scalar");
  R.add<double>("scalar");
  R.add<Color>("scalar");
  R.add<Pod>("scalar");
  R.add<Rgb>("scalar");
  R.add<Wide>("scalar");
  R.add<std::array<int32_t, 3>>("scalar");
  R.add<std::array<Rgb, 5>>("scalar");

  R.add<std::pair<int32_t, double>>("pair");
  R.add<std::pair<char, uint64_t>>("pair");
  R.add<std::pair<uint8_t, uint8_t>>("pair");
  R.add<std::pair<std::pair<int16_t, double>, char>>("pair");
  R.add<std::pair<Pod, Rgb>>("pair");
  R.add<std::pair<double, std::array<uint16_t, 3>>>("pair");

  R.add<std::string>("string");
  R.add<galois::gstl::Str>("string");

  R.add<std::vector<uint8_t>>("vector<trivially copyable>");
  R.add<std::vector<char>>("vector<trivially copyable>");
  R.add<std::vector<int16_t>>("vector<trivially copyable>");
  R.add<std::vector<int32_t>>("vector<trivially copyable>");
  R.add<std::vector<uint64_t>>("vector<trivially copyable>");
  R.add<std::vector<float>>("vector<trivially copyable>");
  R.add<std::vector<double>>("vector<trivially copyable>");
  R.add<std::vector<Pod>>("vector<trivially copyable>");
  R.add<std::vector<Rgb>>("vector<trivially copyable>");
  R.add<std::vector<Wide>>("vector<trivially copyable>");
  R.add<std::vector<Color>>("vector<trivially copyable>");
  R.add<std::vector<std::array<int32_t, 3>>>("vector<trivially copyable>");
  R.add<galois::gstl::Vector<int32_t>>("vector<trivially copyable>");
  R.add<galois::gstl::Vector<uint64_t>>("vector<trivially copyable>");
}
} // namespace c17
