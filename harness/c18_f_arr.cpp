// C18 — fields kept in global arrays indexed by local id: GALOIS_SYNC_STRUCTURE_REDUCE_{MIN,ADD,SET}_ARRAY + BITSET
#include "c18_field.h"

std::vector<uint32_t> a_min;
std::vector<uint64_t> a_add;
std::vector<uint32_t> a_set;
galois::DynamicBitSet bitset_a_min, bitset_a_add, bitset_a_set;
GALOIS_SYNC_STRUCTURE_REDUCE_MIN_ARRAY(a_min, uint32_t);
GALOIS_SYNC_STRUCTURE_BITSET(a_min);
GALOIS_SYNC_STRUCTURE_REDUCE_ADD_ARRAY(a_add, uint64_t);
GALOIS_SYNC_STRUCTURE_BITSET(a_add);
GALOIS_SYNC_STRUCTURE_REDUCE_SET_ARRAY(a_set, uint32_t);
GALOIS_SYNC_STRUCTURE_BITSET(a_set);

namespace {
using namespace c18;
// ---- a_min
void store_min(Graph&, uint32_t lid, const uint64_t* w) { a_min[lid] = (uint32_t)w[0]; }
void load_min(Graph&, uint32_t lid, uint64_t* w) { w[0] = a_min[lid]; }
bool write_min(Graph&, uint32_t lid, const uint64_t* w, bool mark) {
  uint32_t nv  = (uint32_t)w[0];
  uint32_t old = galois::min(a_min[lid], nv);
  if (old > nv) {
    if (mark)
      bitset_a_min.set(lid);
    return true;
  }
  return false;
}
void sync_min(Substrate& s, unsigned W, unsigned R, bool b, bool a, const std::string& l) {
  sync_any<Reduce_min_a_min, Bitset_a_min, true>(s, W, R, b, a, l);
}
void reset_min(Substrate& s) { s.reset_mirrorField<Reduce_min_a_min>(); }
// ---- a_add
void store_add(Graph&, uint32_t lid, const uint64_t* w) { a_add[lid] = w[0]; }
void load_add(Graph&, uint32_t lid, uint64_t* w) { w[0] = a_add[lid]; }
bool write_add(Graph&, uint32_t lid, const uint64_t* w, bool mark) {
  galois::add(a_add[lid], w[0]);
  if (mark)
    bitset_a_add.set(lid);
  return true;
}
void sync_add(Substrate& s, unsigned W, unsigned R, bool b, bool a, const std::string& l) {
  sync_any<Reduce_add_a_add, Bitset_a_add, false>(s, W, R, b, a, l);
}
void reset_add(Substrate& s) { s.reset_mirrorField<Reduce_add_a_add>(); }
// ---- a_set
void store_set(Graph&, uint32_t lid, const uint64_t* w) { a_set[lid] = (uint32_t)w[0]; }
void load_set(Graph&, uint32_t lid, uint64_t* w) { w[0] = a_set[lid]; }
bool write_set(Graph&, uint32_t lid, const uint64_t* w, bool mark) {
  a_set[lid] = (uint32_t)w[0];
  if (mark)
    bitset_a_set.set(lid);
  return true;
}
void sync_set(Substrate& s, unsigned W, unsigned R, bool b, bool a, const std::string& l) {
  sync_any<Reduce_set_a_set, Bitset_a_set, false>(s, W, R, b, a, l);
}
void reset_set(Substrate& s) { s.reset_mirrorField<Reduce_set_a_set>(); }
} // namespace
const c18::FieldVT c18::vt_a_min = {"a_min", "GALOIS_SYNC_STRUCTURE_REDUCE_MIN_ARRAY(uint32_t[])", R_MIN, K_U32, 1, true, true,
                                    store_min, load_min, write_min, &bitset_a_min, sync_min, reset_min};
const c18::FieldVT c18::vt_a_add = {"a_add", "GALOIS_SYNC_STRUCTURE_REDUCE_ADD_ARRAY(uint64_t[])", R_ADD, K_U64, 1, true, false,
                                    store_add, load_add, write_add, &bitset_a_add, sync_add, reset_add};
const c18::FieldVT c18::vt_a_set = {"a_set", "GALOIS_SYNC_STRUCTURE_REDUCE_SET_ARRAY(uint32_t[])", R_SET, K_U32, 1, true, false,
                                    store_set, load_set, write_set, &bitset_a_set, sync_set, reset_set};
