// C09: gstl containers (galois/gstl.h) on the Galois allocators, used the way
// an application does. The allocator calls happen inside libstdc++, so the
// harness observes the *element storage* instead: before every mutating
// operation the container's current storage ranges are erased from the shadow
// map, after it the new ranges are inserted (same insert-after / erase-before
// discipline, so legal reuse can never look like overlap). The container
// contents play the role of the canary: they are compared with a std:: model.
#include "c09_common.h"

#include "galois/gstl.h"

#include <deque>
#include <list>
#include <map>

using namespace c09;
namespace gstl = galois::gstl;

namespace {

struct Range {
  const void* p;
  size_t len;
  uint64_t id;
};

struct Payload40 {
  uint64_t a[5];
  bool operator==(const Payload40& o) const { return memcmp(a, o.a, sizeof a) == 0; }
};
Payload40 payload(uint64_t v) {
  Payload40 p;
  for (int i = 0; i < 5; ++i)
    p.a[i] = v * 0x9E3779B97F4A7C15ULL + i;
  return p;
}

struct ContBase {
  std::vector<Range> reg;
  uint64_t ops = 0;
  virtual ~ContBase() {}
  virtual const char* kind() const                                     = 0;
  virtual void mutate(Rng&)                                            = 0;
  virtual void ranges(std::vector<std::pair<const void*, size_t>>& out) = 0;
  virtual bool matches(std::string& why)                               = 0;
  virtual size_t elemAlign() const { return 8; }
};

// merge element addresses into maximal contiguous ranges
template <typename It>
void elemRanges(It b, It e, size_t es, std::vector<std::pair<const void*, size_t>>& out) {
  const char* start = nullptr;
  size_t len        = 0;
  for (; b != e; ++b) {
    const char* a = (const char*)&*b;
    if (start && a == start + len)
      len += es;
    else {
      if (start)
        out.emplace_back(start, len);
      start = a;
      len   = es;
    }
  }
  if (start)
    out.emplace_back(start, len);
}

struct VecC : ContBase {
  gstl::Vector<uint64_t> v;
  std::vector<uint64_t> m;
  const char* kind() const override { return "Vector"; }
  void mutate(Rng& r) override {
    switch (r.below(10)) {
    case 0:
    case 1:
    case 2:
    case 3: {
      unsigned n = 1 + (unsigned)r.below(r.below(4) ? 8 : 600);
      for (unsigned i = 0; i < n && m.size() < 20000; ++i) {
        uint64_t x = r.next();
        v.push_back(x);
        m.push_back(x);
      }
    } break;
    case 4:
      for (unsigned i = 0, n = (unsigned)r.below(20); i < n && !m.empty(); ++i) {
        v.pop_back();
        m.pop_back();
      }
      break;
    case 5: {
      size_t n = r.below(9000); // reserve exactly around class boundaries
      v.reserve(n);
    } break;
    case 6:
      v.shrink_to_fit();
      break;
    case 7:
      if (r.below(4) == 0) {
        v.clear();
        m.clear();
      }
      break;
    case 8: {
      size_t n = r.below(3000);
      v.resize(n, 7);
      m.resize(n, 7);
    } break;
    default:
      if (!m.empty()) {
        size_t i = r.below(m.size());
        v.erase(v.begin() + i);
        m.erase(m.begin() + i);
      }
    }
  }
  void ranges(std::vector<std::pair<const void*, size_t>>& out) override {
    if (v.capacity())
      out.emplace_back(v.data(), v.capacity() * sizeof(uint64_t));
  }
  bool matches(std::string& why) override {
    if (v.size() != m.size() || !std::equal(v.begin(), v.end(), m.begin())) {
      why = "vector contents differ from the model";
      return false;
    }
    return true;
  }
};

struct DequeC : ContBase {
  gstl::Deque<uint64_t> d;
  std::deque<uint64_t> m;
  const char* kind() const override { return "Deque"; }
  void mutate(Rng& r) override {
    unsigned n = 1 + (unsigned)r.below(r.below(3) ? 6 : 150);
    switch (r.below(6)) {
    case 0:
    case 1:
      for (unsigned i = 0; i < n && m.size() < 3000; ++i) {
        uint64_t x = r.next();
        d.push_back(x);
        m.push_back(x);
      }
      break;
    case 2:
      for (unsigned i = 0; i < n && m.size() < 3000; ++i) {
        uint64_t x = r.next();
        d.push_front(x);
        m.push_front(x);
      }
      break;
    case 3:
      for (unsigned i = 0; i < n && !m.empty(); ++i) {
        d.pop_front();
        m.pop_front();
      }
      break;
    case 4:
      for (unsigned i = 0; i < n && !m.empty(); ++i) {
        d.pop_back();
        m.pop_back();
      }
      break;
    default:
      if (r.below(5) == 0) {
        d.clear();
        m.clear();
      } else
        d.shrink_to_fit();
    }
  }
  void ranges(std::vector<std::pair<const void*, size_t>>& out) override { elemRanges(d.begin(), d.end(), 8, out); }
  bool matches(std::string& why) override {
    if (d.size() != m.size() || !std::equal(d.begin(), d.end(), m.begin())) {
      why = "deque contents differ from the model";
      return false;
    }
    return true;
  }
};

struct ListC : ContBase {
  gstl::List<Payload40> l;
  std::list<uint64_t> m;
  const char* kind() const override { return "List"; }
  void mutate(Rng& r) override {
    unsigned n = 1 + (unsigned)r.below(r.below(3) ? 5 : 80);
    switch (r.below(6)) {
    case 0:
    case 1:
      for (unsigned i = 0; i < n && m.size() < 1500; ++i) {
        uint64_t x = r.next();
        l.push_back(payload(x));
        m.push_back(x);
      }
      break;
    case 2:
      for (unsigned i = 0; i < n && m.size() < 1500; ++i) {
        uint64_t x = r.next();
        l.push_front(payload(x));
        m.push_front(x);
      }
      break;
    case 3:
      for (unsigned i = 0; i < n && !m.empty(); ++i) {
        if (r.below(2)) {
          l.pop_front();
          m.pop_front();
        } else {
          l.pop_back();
          m.pop_back();
        }
      }
      break;
    case 4:
      if (!m.empty()) { // erase in the middle
        size_t i = r.below(m.size());
        auto a   = l.begin();
        auto b   = m.begin();
        std::advance(a, i);
        std::advance(b, i);
        l.erase(a);
        m.erase(b);
      }
      break;
    default:
      if (r.below(5) == 0) {
        l.clear();
        m.clear();
      }
    }
  }
  void ranges(std::vector<std::pair<const void*, size_t>>& out) override { elemRanges(l.begin(), l.end(), sizeof(Payload40), out); }
  bool matches(std::string& why) override {
    if (l.size() != m.size()) {
      why = "list size differs from the model";
      return false;
    }
    auto b = m.begin();
    for (auto& e : l)
      if (!(e == payload(*b++))) {
        why = "list element differs from the model";
        return false;
      }
    return true;
  }
};

struct SetC : ContBase {
  gstl::Set<uint64_t> s;
  std::set<uint64_t> m;
  const char* kind() const override { return "Set"; }
  void mutate(Rng& r) override {
    unsigned n = 1 + (unsigned)r.below(r.below(3) ? 5 : 100);
    switch (r.below(5)) {
    case 0:
    case 1:
    case 2:
      for (unsigned i = 0; i < n && m.size() < 2000; ++i) {
        uint64_t x = r.below(5000);
        s.insert(x);
        m.insert(x);
      }
      break;
    case 3:
      for (unsigned i = 0; i < n; ++i) {
        uint64_t x = r.below(5000);
        s.erase(x);
        m.erase(x);
      }
      break;
    default:
      if (r.below(5) == 0) {
        s.clear();
        m.clear();
      }
    }
  }
  void ranges(std::vector<std::pair<const void*, size_t>>& out) override { elemRanges(s.begin(), s.end(), 8, out); }
  bool matches(std::string& why) override {
    if (s.size() != m.size() || !std::equal(s.begin(), s.end(), m.begin())) {
      why = "set contents differ from the model";
      return false;
    }
    return true;
  }
};

struct MapC : ContBase {
  gstl::Map<uint64_t, Payload40> mp;
  std::map<uint64_t, uint64_t> m;
  const char* kind() const override { return "Map"; }
  void mutate(Rng& r) override {
    unsigned n = 1 + (unsigned)r.below(r.below(3) ? 5 : 100);
    switch (r.below(5)) {
    case 0:
    case 1:
    case 2:
      for (unsigned i = 0; i < n && m.size() < 1500; ++i) {
        uint64_t k = r.below(4000), x = r.next();
        mp[k] = payload(x);
        m[k]  = x;
      }
      break;
    case 3:
      for (unsigned i = 0; i < n; ++i) {
        uint64_t k = r.below(4000);
        mp.erase(k);
        m.erase(k);
      }
      break;
    default:
      if (r.below(5) == 0) {
        mp.clear();
        m.clear();
      }
    }
  }
  void ranges(std::vector<std::pair<const void*, size_t>>& out) override {
    elemRanges(mp.begin(), mp.end(), sizeof(std::pair<const uint64_t, Payload40>), out);
  }
  bool matches(std::string& why) override {
    if (mp.size() != m.size()) {
      why = "map size differs from the model";
      return false;
    }
    auto b = m.begin();
    for (auto& kv : mp) {
      if (kv.first != b->first || !(kv.second == payload(b->second))) {
        why = "map entry differs from the model";
        return false;
      }
      ++b;
    }
    return true;
  }
};

struct StrC : ContBase {
  gstl::Str s;
  std::string m;
  const char* kind() const override { return "Str"; }
  size_t elemAlign() const override { return 1; }
  void mutate(Rng& r) override {
    switch (r.below(6)) {
    case 0:
    case 1:
    case 2: {
      unsigned n = 1 + (unsigned)r.below(r.below(3) ? 10 : 3000);
      for (unsigned i = 0; i < n && m.size() < 70000; ++i) {
        char ch = (char)('a' + r.below(26));
        s.push_back(ch);
        m.push_back(ch);
      }
    } break;
    case 3: {
      size_t n = r.below(m.size() + 1);
      s.resize(n);
      m.resize(n);
    } break;
    case 4: {
      std::string t = std::to_string(r.next());
      s += gstl::makeStr(t); // StrMaker<std::string>
      m += t;
    } break;
    default: s.shrink_to_fit();
    }
  }
  void ranges(std::vector<std::pair<const void*, size_t>>& out) override {
    // heap storage only (not the in-object small-string buffer)
    const char* d = s.data();
    if (d < (const char*)&s || d >= (const char*)(&s + 1))
      out.emplace_back(d, s.capacity() + 1);
  }
  bool matches(std::string& why) override {
    if (s.size() != m.size() || memcmp(s.data(), m.data(), m.size()) != 0) {
      why = "string contents differ from the model";
      return false;
    }
    return true;
  }
};

struct PQC : ContBase {
  gstl::PQ<uint64_t> q;
  std::multiset<uint64_t> m;
  const char* kind() const override { return "PQ"; }
  void mutate(Rng& r) override {
    unsigned n = 1 + (unsigned)r.below(r.below(3) ? 6 : 300);
    if (r.below(5) < 3) {
      for (unsigned i = 0; i < n && m.size() < 5000; ++i) {
        uint64_t x = r.below(100000);
        q.push(x);
        m.insert(x);
      }
    } else {
      for (unsigned i = 0; i < n && !m.empty(); ++i) {
        uint64_t t = q.pop();
        auto it    = m.begin();
        if (t != *it)
          bad = true;
        m.erase(it);
      }
    }
  }
  bool bad = false;
  void ranges(std::vector<std::pair<const void*, size_t>>& out) override {
    if (!q.empty())
      out.emplace_back(&q.top(), q.size() * sizeof(uint64_t));
  }
  bool matches(std::string& why) override {
    if (bad || q.size() != m.size() || (!m.empty() && q.top() != *m.begin())) {
      why = "priority queue does not return the minimum of the model";
      return false;
    }
    return true;
  }
};

ContBase* makeCont(unsigned kind) {
  switch (kind % 7) {
  case 0: return new VecC();
  case 1: return new DequeC();
  case 2: return new ListC();
  case 3: return new SetC();
  case 4: return new MapC();
  case 5: return new StrC();
  default: return new PQC();
  }
}

struct GstlStats {
  std::atomic<uint64_t> ops{0}, rangesReg{0}, modelChecks{0}, containers{0}, handovers{0};
  std::atomic<uint64_t> kinds[7] = {};
};

void unregisterAll(CaseCtx& c, ContBase* x) {
  for (auto& r : x->reg) {
    if (!g_shadow.erase(r.p, r.len, r.id)) {
      fprintf(stderr, "c09 harness error: gstl range not in shadow map\n");
      _exit(2);
    }
    c.frees.fetch_add(1, std::memory_order_relaxed);
  }
  x->reg.clear();
}
void registerAll(CaseCtx& c, ContBase* x, GstlStats& st, int tid) {
  std::vector<std::pair<const void*, size_t>> rs;
  x->ranges(rs);
  for (auto& r : rs) {
    c.allocs.fetch_add(1, std::memory_order_relaxed);
    st.rangesReg.fetch_add(1, std::memory_order_relaxed);
    if ((uintptr_t)r.first % x->elemAlign())
      c.report(c.key("misaligned"), J().kv("container", x->kind()).kv("ptr", hexp(r.first)).str());
    uint64_t id = g_nextBlockId.fetch_add(1, std::memory_order_relaxed);
    vref::ShadowEntry other;
    if (!g_shadow.insert(r.first, r.second, id, (uint32_t)(tid + 1), &other)) {
      c.report(c.key("overlap-live"),
               J().kv("container", x->kind()).kv("storage", hexp(r.first)).kv("len", r.second).kv("thread", tid)
                   .kv("live_block", hexp((void*)other.lo)).kv("live_len", (uint64_t)(other.hi - other.lo))
                   .kv("live_owner_thread", (int)other.tag - 1).str());
      continue;
    }
    x->reg.push_back(Range{r.first, r.second, id});
  }
  uint64_t live = c.curLive.load(std::memory_order_relaxed);
  (void)live;
}
void checkModel(CaseCtx& c, ContBase* x, GstlStats& st, const char* when) {
  st.modelChecks.fetch_add(1, std::memory_order_relaxed);
  c.canaryChecks.fetch_add(1, std::memory_order_relaxed);
  std::string why;
  if (!x->matches(why))
    c.report(c.key("contents-corrupt"), J().kv("container", x->kind()).kv("what", why).kv("when", when).str());
}
void step(CaseCtx& c, ContBase* x, Rng& r, GstlStats& st, int tid) {
  unregisterAll(c, x);
  x->mutate(r);
  ++x->ops;
  registerAll(c, x, st, tid);
  st.ops.fetch_add(1, std::memory_order_relaxed);
  if (r.below(8) == 0)
    checkModel(c, x, st, "random");
}
void destroyCont(CaseCtx& c, ContBase* x, GstlStats& st) {
  checkModel(c, x, st, "before-destruction");
  unregisterAll(c, x);
  delete x;
}

struct alignas(64) ContMail {
  std::mutex m;
  std::vector<ContBase*> v;
};

CaseResult gstlCase(Harness& H, long k, Rng& rng, bool storm) {
  CaseCtx c(H, "gstl");
  unsigned maxT = c.maxT;
  unsigned n    = storm ? std::max(1u, std::min<unsigned>((unsigned)rng.pick({2, 4, 8, 16}), maxT)) : 1;
  unsigned ops  = H.thorough ? (unsigned)rng.pick({100, 400, 1200}) : (unsigned)rng.pick({60, 200, 500});
  ops           = (unsigned)std::min<long>(ops, H.paramInt("maxops", 1000000));
  uint64_t seed = rng.next();
  unsigned perThread = storm ? 3 : 6;
  std::vector<int> T; // serial: threads the operations are assigned to
  if (!storm) {
    unsigned nT = std::min<unsigned>((unsigned)rng.pick({1, 2, 4}), maxT);
    for (unsigned i = 0; i < nT; ++i)
      T.push_back((int)rng.below(maxT));
  }
  H.begin(k, J().kv("component", "gstl").kv("mode", storm ? "storm" : "serial").kv("threads", n).kv("ops", ops)
                 .raw("serial_threads", jarr(T)).kv("maxT", maxT).kv("sockets", c.nsock).str());
  GstlStats st;
  std::atomic<uint64_t> maxRanges{0};
  if (!storm) {
    galois::setActiveThreads(maxT);
    std::vector<ContBase*> cs;
    for (unsigned i = 0; i < ops; ++i) {
      int tid = T[rng.below(T.size())];
      runOn(tid, [&] {
        unsigned x = (unsigned)rng.below(100);
        if ((x < 8 && cs.size() < perThread) || cs.empty()) {
          unsigned kind = (unsigned)rng.below(7);
          cs.push_back(makeCont(kind));
          st.containers++;
          st.kinds[kind]++;
        } else if (x < 12) {
          size_t idx = rng.below(cs.size());
          destroyCont(c, cs[idx], st); // possibly on another thread than the one that filled it
          cs[idx] = cs.back();
          cs.pop_back();
        } else {
          step(c, cs[rng.below(cs.size())], rng, st, tid);
        }
      });
      uint64_t nr = 0;
      for (auto* x : cs)
        nr += x->reg.size();
      if (nr > maxRanges.load())
        maxRanges.store(nr);
      progress();
    }
    for (auto* x : cs)
      destroyCont(c, x, st);
  } else {
    galois::setActiveThreads(n);
    std::vector<ContMail> mail(n);
    galois::on_each([&](unsigned tid, unsigned) {
      Rng lr(mix(seed, 0x9191 + tid));
      std::vector<ContBase*> cs;
      for (unsigned i = 0; i < ops; ++i) {
        unsigned x = (unsigned)lr.below(100);
        if ((x < 8 && cs.size() < perThread) || cs.empty()) {
          unsigned kind = (unsigned)lr.below(7);
          cs.push_back(makeCont(kind));
          st.containers++;
          st.kinds[kind]++;
        } else if (x < 12) {
          size_t idx = lr.below(cs.size());
          destroyCont(c, cs[idx], st);
          cs[idx] = cs.back();
          cs.pop_back();
        } else if (x < 17 && n > 1) { // hand a whole container to another thread, which goes on using it
          size_t idx = lr.below(cs.size());
          unsigned u = (unsigned)lr.below(n - 1);
          if (u >= tid)
            ++u;
          {
            std::lock_guard<std::mutex> lg(mail[u].m);
            mail[u].v.push_back(cs[idx]);
          }
          cs[idx] = cs.back();
          cs.pop_back();
          st.handovers++;
        } else if (x < 22) {
          std::vector<ContBase*> got;
          {
            std::lock_guard<std::mutex> lg(mail[tid].m);
            got.swap(mail[tid].v);
          }
          for (auto* g : got) {
            checkModel(c, g, st, "received");
            c.xfrees.fetch_add(1, std::memory_order_relaxed);
            if (cs.size() < perThread + 2)
              cs.push_back(g);
            else
              destroyCont(c, g, st);
          }
        } else {
          step(c, cs[lr.below(cs.size())], lr, st, (int)tid);
        }
        progress();
      }
      for (auto* x : cs)
        destroyCont(c, x, st);
    });
    for (auto& mb : mail)
      for (auto* x : mb.v)
        destroyCont(c, x, st);
  }
  c.flush();
  CaseResult R;
  unsigned nk = 0;
  std::string kv;
  for (int i = 0; i < 7; ++i) {
    kv += st.kinds[i].load() ? "1" : "0";
    nk += st.kinds[i].load() ? 1 : 0;
  }
  R.nontrivial = st.ops.load() >= 10 && st.rangesReg.load() >= 4 && st.containers.load() >= 2;
  R.sig = std::string("gstl|") + (storm ? "storm" : "serial") + "|k" + kv + "|n" + std::to_string(n) + "|h" + bucket(st.handovers.load()) +
          "|ops" + bucket(st.ops.load());
  J obs;
  commonObs(obs, c).kv(storm ? "storm_cases" : "serial_cases", 1).kv("gstl_container_ops", st.ops.load())
      .kv("gstl_storage_ranges_registered", st.rangesReg.load()).kv("gstl_model_checks", st.modelChecks.load())
      .kv("gstl_containers", st.containers.load()).kv("gstl_handovers", st.handovers.load());
  if (storm)
    obs.kv("storm_ops", (uint64_t)ops * n).kv("storm_threads", n);
  R.obs = obs.str();
  return R;
}

Register r1("gstl", gstlCase, 8, 8);

} // namespace
