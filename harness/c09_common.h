// C09 - allocators hand out disjoint, aligned, sufficiently large live blocks.
// Shared by the c09_*.cpp translation units of the c09_alloc harness.
//
// Oracle (see DESIGN.md, section C09):
//  * shadow interval map (ref/interval_shadow.h): insert AFTER allocate
//    returned, erase BEFORE the block is handed back -> a correct allocator can
//    never appear to overlap;
//  * block-specific canary over the *requested* size, re-checked when the block
//    is retired and at random quiescent points;
//  * alignment to the granularity the statement promises.
#pragma once

#include "verif.h"
#include "interval_shadow.h"

#include "galois/Galois.h"
#include "galois/Mem.h"
#include "galois/runtime/Mem.h"
#include "galois/runtime/PagePool.h"
#include "galois/substrate/ThreadPool.h"

#include <algorithm>
#include <atomic>
#include <memory>
#include <mutex>
#include <set>
#include <string>
#include <unordered_set>
#include <vector>

namespace c09 {

using namespace verif;

constexpr size_t PAGE2M = 2u << 20;

inline vref::IntervalShadow g_shadow; // process-wide: live blocks of all components
inline std::atomic<uint64_t> g_nextBlockId{1};

// a live block as the harness sees it
struct Blk {
  void* p      = nullptr;
  size_t len   = 0;  // bytes the harness may use (requested size, or `allocated` of the 2-arg overload)
  uint64_t id  = 0;  // 0 = not tracked (unusable: violation already reported)
  uint32_t aux = 0;  // adapter specific (size index, variant, slot)
  void* handle = nullptr; // adapter specific (e.g. the owning smart pointer)
  int16_t owner = -1; // pool thread that allocated it (-1 main outside a region)
  uint8_t ktag  = 0;  // selects CaseCtx::ktag (entry point the block came from)
  bool ok() const { return id != 0; }
};

// ------------------------------------------------------------------ OS mappings (c09_main.cpp)
// The harness executable interposes mmap/munmap and records every anonymous
// mapping whose length is a multiple of 2 MB - that is how Galois' allocPages()
// obtains page-pool pages, per-thread storage regions and large arrays. This
// gives the oracle the exact memory an allocator layered on the page pool
// owns, without touching /repo.
struct OsHit {
  uintptr_t lo = 0, hi = 0;
};
bool osFind(const void* p, OsHit* hit);
uint64_t osMappingsSeen();
enum Extent {
  EXT_NONE = 0,
  EXT_WITHIN_SLICE,   // block must not leave the 2 MB page (slice of a recorded mapping) it starts in
  EXT_WHOLE_SLICE,    // block must start at a 2 MB page obtained from the OS and stay inside it
  EXT_WITHIN_MAPPING  // block must lie inside one recorded mapping
};

// ------------------------------------------------------------------ per-case context
struct CaseCtx {
  Harness& H;
  std::string comp;
  unsigned maxT = 1, nsock = 1;
  Extent extent = EXT_NONE;
  const char* ktag[4] = {"", "alloc2-", "", ""}; // key prefix by Blk::ktag (different entry points, different defects)
  std::atomic<bool> poisoned{false}; // the instance under test is in a state where going on is pointless/unsafe

  // measured counters (relaxed; summed into the evidence through obs)
  std::atomic<uint64_t> allocs{0}, frees{0}, clears{0}, xfrees{0}, reuses{0}, canaryChecks{0},
      canaryBytes{0}, bytesRequested{0}, quiescentChecks{0}, nullReturns{0}, maxLive{0}, curLive{0},
      zeroLen{0}, violationsSeen{0}, extentChecked{0}, extentUnknown{0};

  std::mutex vm;
  std::vector<std::pair<std::string, std::string>> pending; // (key, detail)
  std::map<std::string, unsigned> perKey;

  // addresses retired in this case (to measure that a free list / reuse path was really taken)
  static constexpr unsigned FSH = 16;
  struct FreedShard {
    std::mutex m;
    std::unordered_set<uintptr_t> s;
  } freed[FSH];

  CaseCtx(Harness& h, const std::string& c) : H(h), comp(c) {
    auto& tp = galois::substrate::getThreadPool();
    maxT     = tp.getMaxThreads();
    nsock    = tp.getMaxSockets();
  }

  std::string key(const char* kind, unsigned tag = 0) const { return "C09:" + comp + ":" + ktag[tag & 3] + kind; }

  // thread-safe; at most 3 witnesses per key and case are kept
  void report(const std::string& k, const std::string& detail) {
    violationsSeen.fetch_add(1, std::memory_order_relaxed);
    std::lock_guard<std::mutex> lg(vm);
    if (perKey[k]++ < 3)
      pending.emplace_back(k, detail);
  }
  // main thread, outside parallel regions
  void flush() {
    std::lock_guard<std::mutex> lg(vm);
    for (auto& kv : pending)
      H.violation(kv.first, kv.second);
    pending.clear();
  }
  bool anyViolation() const { return violationsSeen.load(std::memory_order_relaxed) != 0; }

  void noteFreed(const void* p) {
    auto& sh = freed[((uintptr_t)p >> 4) % FSH];
    std::lock_guard<std::mutex> lg(sh.m);
    if (sh.s.size() < (1u << 15))
      sh.s.insert((uintptr_t)p);
  }
  void noteAllocated(const void* p) {
    auto& sh = freed[((uintptr_t)p >> 4) % FSH];
    std::lock_guard<std::mutex> lg(sh.m);
    auto it = sh.s.find((uintptr_t)p);
    if (it != sh.s.end()) {
      sh.s.erase(it);
      reuses.fetch_add(1, std::memory_order_relaxed);
    }
  }
  void forgetFreed() { // after clear(): everything may legitimately come back
    for (auto& sh : freed) {
      std::lock_guard<std::mutex> lg(sh.m);
      sh.s.clear();
    }
  }
};

inline const char* bucket(uint64_t v) {
  return v == 0 ? "0" : v < 10 ? "1+" : v < 100 ? "10+" : v < 1000 ? "100+" : "1000+";
}

inline std::string hexp(const void* p) {
  char b[32];
  snprintf(b, sizeof b, "0x%llx", (unsigned long long)(uintptr_t)p);
  return b;
}

inline uint64_t canarySeed(uint64_t id) { return id * 0xD6E8FEB86659FD93ULL + 0x2545F4914F6CDD1DULL; }

// Called right AFTER an allocator returned [p,p+len). Checks non-null,
// alignment and disjointness from every live block, then writes the canary.
// Returns a Blk with id==0 when the block must not be touched.
inline Blk onAlloc(CaseCtx& c, void* p, size_t len, size_t align, uint32_t aux, int owner,
                   const std::string& how = std::string(), unsigned ktag = 0, bool foreignOrigin = false) {
  // foreignOrigin: the block is documented to come from malloc (fallback paths), not from Galois' own pages
  Blk b;
  b.p     = p;
  b.len   = len;
  b.aux   = aux;
  b.owner = (int16_t)owner;
  b.ktag  = (uint8_t)ktag;
  c.allocs.fetch_add(1, std::memory_order_relaxed);
  c.bytesRequested.fetch_add(len, std::memory_order_relaxed);
  if (!len) {
    c.zeroLen.fetch_add(1, std::memory_order_relaxed);
    return b; // nothing promised about a zero-byte block
  }
  if (!p) {
    c.nullReturns.fetch_add(1, std::memory_order_relaxed);
    c.report(c.key("null-block", ktag), J().kv("requested", len).kv("how", how).kv("thread", owner).str());
    return b;
  }
  if (c.extent != EXT_NONE && foreignOrigin) {
    c.extentUnknown.fetch_add(1, std::memory_order_relaxed); // malloc fallback: nothing known, nothing demanded
  } else if (c.extent != EXT_NONE) {
    OsHit m;
    if (!osFind(p, &m)) {
      // every page of the page pool / per-thread region / large array was obtained through the recorded mmap
      c.report(c.key("block-outside-allocator-memory", ktag),
               J().kv("ptr", hexp(p)).kv("len", len).kv("how", how).kv("thread", owner)
                   .kv("what", "pointer is in no memory the Galois page allocator ever obtained").str());
      c.poisoned.store(true, std::memory_order_relaxed);
      return b; // never written
    } else {
      c.extentChecked.fetch_add(1, std::memory_order_relaxed);
      uintptr_t lo = (uintptr_t)p, hi = lo + len;
      uintptr_t sliceLo = m.lo + (lo - m.lo) / PAGE2M * PAGE2M, sliceHi = sliceLo + PAGE2M;
      bool bad = false;
      const char* why = "";
      if (c.extent == EXT_WITHIN_MAPPING) {
        bad = hi > m.hi;
        why = "block reaches beyond the OS mapping it starts in";
      } else if (c.extent == EXT_WITHIN_SLICE) {
        bad = hi > sliceHi;
        why = "block reaches beyond the 2MB page it starts in";
      } else {
        bad = lo != sliceLo || hi > sliceHi;
        why = "block does not start at a 2MB page of the pool or leaves it";
      }
      if (bad) {
        c.report(c.key("block-overruns-chunk", ktag),
                 J().kv("ptr", hexp(p)).kv("len", len).kv("how", how).kv("what", why)
                     .kv("page", hexp((void*)sliceLo)).kv("page_end", hexp((void*)sliceHi))
                     .kv("mapping", hexp((void*)m.lo)).kv("mapping_end", hexp((void*)m.hi))
                     .kv("bytes_beyond", (uint64_t)(hi > sliceHi ? hi - sliceHi : 0)).str());
        c.poisoned.store(true, std::memory_order_relaxed);
        return b; // never written
      }
    }
  }
  if ((uintptr_t)p % align) {
    c.report(c.key("misaligned", ktag),
             J().kv("ptr", hexp(p)).kv("requested", len).kv("demanded_alignment", align).kv("how", how).str());
  }
  uint64_t id = g_nextBlockId.fetch_add(1, std::memory_order_relaxed);
  vref::ShadowEntry other;
  if (!g_shadow.insert(p, len, id, (uint32_t)(owner + 1), &other)) {
    c.report(c.key("overlap-live", ktag),
             J().kv("new_block", hexp(p)).kv("new_len", len).kv("how", how).kv("thread", owner)
                 .kv("live_block", hexp((void*)other.lo)).kv("live_len", (uint64_t)(other.hi - other.lo))
                 .kv("live_id", other.id).kv("live_allocated_by_thread", (int)other.tag - 1).str());
    return b; // do not write into somebody else's live memory
  }
  b.id = id;
  c.noteAllocated(p);
  vref::canary_fill(p, len, canarySeed(id));
  uint64_t live = c.curLive.fetch_add(1, std::memory_order_relaxed) + 1;
  uint64_t ml   = c.maxLive.load(std::memory_order_relaxed);
  while (live > ml && !c.maxLive.compare_exchange_weak(ml, live, std::memory_order_relaxed)) {
  }
  return b;
}

// canary re-check of a live block (any time the owner is quiescent w.r.t. it)
inline bool checkCanary(CaseCtx& c, const Blk& b, const char* when) {
  if (!b.ok())
    return true;
  c.canaryChecks.fetch_add(1, std::memory_order_relaxed);
  c.canaryBytes.fetch_add(vref::canary_covered(b.len), std::memory_order_relaxed);
  size_t off = vref::canary_check(b.p, b.len, canarySeed(b.id));
  if (off == (size_t)-1)
    return true;
  unsigned char got = ((unsigned char*)b.p)[off];
  // what is there now (first 16 foreign bytes) helps to recognise a pointer / header
  std::string hex;
  for (size_t i = off; i < b.len && i < off + 16; ++i) {
    char t[4];
    snprintf(t, sizeof t, "%02x", ((unsigned char*)b.p)[i]);
    hex += t;
  }
  c.report(c.key("canary-corrupt", b.ktag),
           J().kv("block", hexp(b.p)).kv("len", b.len).kv("first_foreign_offset", off)
               .kv("expected", (unsigned)vref::canary_byte(canarySeed(b.id), off)).kv("found", (unsigned)got)
               .kv("bytes_at_offset", hex).kv("when", when).kv("allocated_by_thread", (int)b.owner).str());
  return false;
}

// Called right BEFORE the block is handed back (deallocate / clear / destructor).
inline void beforeFree(CaseCtx& c, Blk& b, bool willBeReusable = true) {
  if (!b.ok())
    return;
  checkCanary(c, b, "at-free");
  if (!g_shadow.erase(b.p, b.len, b.id)) {
    fprintf(stderr, "c09 harness error: block %p len %zu id %llu not in shadow map\n", b.p, b.len,
            (unsigned long long)b.id);
    fflush(stderr);
    _exit(2);
  }
  if (willBeReusable)
    c.noteFreed(b.p);
  c.frees.fetch_add(1, std::memory_order_relaxed);
  c.curLive.fetch_sub(1, std::memory_order_relaxed);
  b.id = 0;
}

// run f on pool thread `tid` (inside a parallel region), or directly on the
// main thread outside any region when tid < 0
template <typename F>
inline void runOn(int tid, F&& f) {
  if (tid < 0) {
    f();
    return;
  }
  galois::on_each([&](unsigned t, unsigned) {
    if ((int)t == tid)
      f();
  });
}

// sizes around every power-of-two / size-class boundary up to maxSize
inline size_t boundarySize(Rng& rng, size_t maxSize, unsigned maxLog = 22) {
  for (int tries = 0; tries < 64; ++tries) {
    size_t s;
    switch (rng.below(8)) {
    case 0: s = 1 + rng.below(16); break;
    case 1: s = 1 + rng.below(300); break;
    case 7: s = 1 + rng.below(std::min<size_t>(maxSize, 70000)); break;
    default: {
      // small classes are much more likely than big ones
      unsigned k = (unsigned)rng.below(maxLog + 1);
      if (k > 12 && rng.below(3))
        k = (unsigned)rng.below(13);
      size_t base = (size_t)1 << k;
      static const int d[] = {-9, -8, -7, -1, 0, 0, 1, 7, 8, 9};
      long delta = d[rng.below(10)];
      if ((long)base + delta < 1)
        delta = 0;
      s = base + delta;
    }
    }
    if (s >= 1 && s <= maxSize)
      return s;
  }
  return 1 + rng.below(std::min<size_t>(maxSize, 64));
}

// ------------------------------------------------------------------ component registry
struct CaseResult {
  std::string sig;
  bool nontrivial = false;
  std::string obs; // JSON object
};
// params are written by the component before it starts the real work
using CaseFn = CaseResult (*)(Harness& H, long k, Rng& rng, bool storm);

struct Component {
  const char* name;
  CaseFn fn;
  unsigned weightSerial; // relative frequency among serial cases
  unsigned weightStorm;  // 0 = no concurrent mode
  bool mainRunOnly;      // excluded from the default mix (isolated runs, e.g. destructive known defects)
};
std::vector<Component>& registry();
struct Register {
  Register(const char* n, CaseFn f, unsigned ws, unsigned wst, bool iso = false) {
    registry().push_back(Component{n, f, ws, wst, iso});
  }
};

// common obs fields
inline J& commonObs(J& j, CaseCtx& c) {
  j.kv("allocs", c.allocs.load()).kv("frees", c.frees.load()).kv("clears", c.clears.load())
      .kv("cross_thread_frees", c.xfrees.load()).kv("address_reuses", c.reuses.load())
      .kv("canary_checks", c.canaryChecks.load()).kv("canary_bytes", c.canaryBytes.load())
      .kv("bytes_requested", c.bytesRequested.load()).kv("quiescent_checks", c.quiescentChecks.load())
      .kv("null_returns", c.nullReturns.load()).kv("oracle_violations", c.violationsSeen.load())
      .kv("page_extent_checks", c.extentChecked.load()).kv("page_extent_unknown_origin", c.extentUnknown.load());
  return j;
}

} // namespace c09
