// worklist instantiations, part F: adaptive OBIM, owner computes, ordered list, external reference
#include "c01_common.h"
using namespace c01;
using namespace galois::worklists;

typedef AdaptiveOrderedByIntegerMetric<PrioIndexer, PerSocketChunkFIFO<8>> AOBIM;
C01_WL(AdaptiveOBIM_default, "AdaptiveOBIM", F_PRIO | F_QUICK, AOBIM)
// (with_unmerge<> lacks its typedef in AdaptiveObim.h, so spell the type out)
C01_WL(AdaptiveOBIM_unmerge, "AdaptiveOBIM", F_PRIO,
       AdaptiveOrderedByIntegerMetric<PrioIndexer, PerSocketChunkFIFO<8>, 0, true, false, 64, int, int, true>)
C01_WL(AdaptiveOBIM_period2, "AdaptiveOBIM", F_PRIO, AOBIM::with_block_period<2>::type)
C01_WL(OwnerComputes_chunklifo, "OwnerComputes", F_OWNER | F_QUICK, OwnerComputes<OwnerFn, ChunkLIFO<8>>)
C01_WL(OwnerComputes_psc, "OwnerComputes", F_OWNER, OwnerComputes<OwnerFn, PerSocketChunkFIFO<4>>)
C01_WL(OrderedList_prio, "OrderedList", F_PRIO, OrderedList<PrioLess>)

// ExternalReference: the loop runs on a worklist object owned by the caller
static void run_ExternalReference(Case& c, bool cd, bool pia) {
  typedef PerSocketChunkFIFO<8, Item> Ext;
  Ext ext;
  runLoop<ExternalReference<Ext>>(c, cd, pia, std::ref(ext));
}
static Registrar reg_ExternalReference("ExternalReference_psc8", "ExternalReference", 0, &run_ExternalReference);
