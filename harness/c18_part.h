// C18 — one CuSP policy per TU (the NewDistGraphGeneric template is heavy): the call is the one
// DistBench/Input.h makes, galois::cuspPartitionGraph<Policy, NodeData, EdgeData>(inputFile, inType, outType,
// symmetric, inputFileTranspose) with every other argument defaulted.
#pragma once
#include "c18_common.h"

#include "galois/graphs/CuSPPartitioner.h"

template <typename Policy>
c18::GraphPtr c18_partition(const std::string& f, const std::string& ft, const c18::PartCall& c) {
  return galois::cuspPartitionGraph<Policy, NodeData, void>(f, c.inCSC ? galois::CUSP_CSC : galois::CUSP_CSR,
                                                            c.outCSC ? galois::CUSP_CSC : galois::CUSP_CSR, c.symmetric, ft);
}
