// C19 — graph partitioning: every edge once, one master per node, consistent ids.
//
// MPI harness (mpirun -np 1..4). One case = (scheme/direction combination of
// DistBench/Input.h -> policy class, input/output format, symmetric), options
// (cuspAsync, stateRounds, read balancing policy and weights, masters file,
// threads, edge data type) and a generated graph. Every rank derives the same
// case from the seed; rank 0 writes the .gr file(s) with the independent codec
// of /verif/ref, all ranks call cuspPartitionGraph<Policy, char, void|uint32_t>
// and read the result back through DistGraph's public accessors only
// (c19_extract.h); the observations are gathered with plain MPI collectives on
// a private communicator and judged on rank 0 against the generated graph.
#define VERIF_MAIN_TU
#include "verif.h"

#include "c19_common.h"
#include "gr_codec.h"

#include "galois/DistGalois.h"
#include "galois/runtime/Network.h"

#include <mpi.h>

#include <algorithm>
#include <map>
#include <set>
#include <tuple>

#include <dirent.h>
#include <signal.h>
#include <sys/stat.h>

using namespace verif;
using namespace c19;

// ------------------------------------------------------------------ case plan
struct Combo {
  const char* scheme; // name of the PARTITIONING_SCHEME in DistBench/Input.h
  const char* dir;    // out = constructGraph<iterateOut=true>, in = <false>, sym = constructSymmetricGraph
  unsigned policy;
  bool inCSC, outCSC, sym, mastersFileOk;
};
// exactly the calls DistBench/Input.h makes for >= 2 hosts (one host: Input.h always takes NoCommunication;
// here every combination is also run on one host, the statement quantifies over all policies and host counts)
static const Combo COMBOS[] = {
    {"oec", "out", P_NOCOMM, false, false, false, true},
    {"iec", "out", P_NOCOMM, true, false, false, true},
    {"hovc", "out", P_HVC, false, false, false, false},
    {"hivc", "out", P_HVC, true, false, false, false},
    {"cvc", "out", P_CVC, false, false, false, false},
    {"cvc-iec", "out", P_CVC, true, false, false, false},
    {"ginger-o", "out", P_GINGER, false, false, false, false},
    {"ginger-i", "out", P_GINGER, true, false, false, false},
    {"fennel-o", "out", P_FENNEL, false, false, false, false},
    {"fennel-i", "out", P_FENNEL, true, false, false, false},
    {"sugar-o", "out", P_SUGAR, false, false, false, false},
    {"oec", "in", P_NOCOMM, false, true, false, true},
    {"iec", "in", P_NOCOMM, true, true, false, true},
    {"hovc", "in", P_HVC, false, true, false, false},
    {"hivc", "in", P_HVC, true, true, false, false},
    {"cvc", "in", P_CVCFLIP, false, true, false, false},
    {"cvc-iec", "in", P_CVCFLIP, true, true, false, false},
    {"ginger-o", "in", P_GINGER, false, true, false, false},
    {"ginger-i", "in", P_GINGER, true, true, false, false},
    {"fennel-o", "in", P_FENNEL, false, true, false, false},
    {"fennel-i", "in", P_FENNEL, true, true, false, false},
    {"sugar-o", "in", P_SUGARFLIP, false, true, false, false},
    {"oec", "sym", P_NOCOMM, false, false, true, true},
    {"hovc", "sym", P_HVC, false, false, true, false},
    {"cvc", "sym", P_CVC, false, false, true, false},
    {"ginger-o", "sym", P_GINGER, false, false, true, false},
    {"fennel-o", "sym", P_FENNEL, false, false, true, false},
    {"sugar-o", "sym", P_SUGAR, false, false, true, false},
    {"mining-degrees", "sym", P_MINING, false, false, true, false},
    {"mining-naive", "sym", P_MINING, false, false, true, false},
};
constexpr unsigned NCOMBOS = sizeof(COMBOS) / sizeof(COMBOS[0]);

static const Runner RUNNERS[NUM_POLICIES] = {run_nocomm, run_hvc,    run_cvc,       run_cvcflip, run_ginger,
                                             run_fennel, run_sugar,  run_sugarflip, run_mining};

// ------------------------------------------------------------------ graphs
struct Edge3 {
  uint64_t s, d, w;
  bool operator<(const Edge3& o) const { return std::tie(s, d, w) < std::tie(o.s, o.d, o.w); }
  bool operator==(const Edge3& o) const { return s == o.s && d == o.d && w == o.w; }
};

static void symmetrize(ref::RefGraph& g) {
  ref::RefGraph t = ref::transpose(g);
  for (uint64_t s = 0; s < g.numNodes; ++s)
    for (auto& e : t.adj[s])
      if (e.dst != s) // a self loop is its own reverse
        g.adj[s].push_back(e);
}

// simple (no self loops, no parallel edges) symmetric graph: domain of MiningGraph
static void simplify(ref::RefGraph& g) {
  for (uint64_t s = 0; s < g.numNodes; ++s) {
    auto& a = g.adj[s];
    a.erase(std::remove_if(a.begin(), a.end(), [&](const ref::RefEdge& e) { return e.dst == s; }), a.end());
    std::sort(a.begin(), a.end(), [](const ref::RefEdge& x, const ref::RefEdge& y) { return x.dst < y.dst; });
    a.erase(std::unique(a.begin(), a.end(), [](const ref::RefEdge& x, const ref::RefEdge& y) { return x.dst == y.dst; }),
            a.end());
  }
}

static ref::RefGraph makeGraph(Rng& rng, unsigned np, uint64_t maxNodes, bool allowHuge, std::string& kind) {
  using ref::Shape;
  unsigned k = (unsigned)rng.below(24);
  bool huge  = rng.chance(1, 50);
  ref::RefGraph g(0);
  uint64_t gs = rng.next();
  if (huge && allowHuge) {
    // > 8 MB of edges for one destination host from one reading thread: edgePartitionSendBufSize is exceeded and
    // buffers are sent from inside the edge loop (NewGeneric.h sendEdges)
    uint64_t n = 2000 + rng.below(6000), m = 1500000 + rng.below(600000);
    g          = ref::RefGraph(n);
    ref::GenRng r(gs);
    for (uint64_t i = 0; i < m; ++i)
      g.addEdge(r.below(n), r.below(n));
    kind = "huge";
    return g;
  }
  auto sized  = [&](uint64_t lo, uint64_t hi) { return (uint64_t)rng.range((int64_t)lo, (int64_t)std::max(lo, hi)); };
  switch (k) {
  case 0: { // fewer nodes than hosts (or a single node)
    uint64_t n = np > 1 ? 1 + rng.below(np - 1) : 1;
    g          = ref::RefGraph(n);
    uint64_t m = rng.below(6);
    for (uint64_t i = 0; i < m; ++i)
      g.addEdge(rng.below(n), rng.below(n));
    kind = "nodes<hosts";
    break;
  }
  case 1: // exactly as many nodes as hosts / one more
    g    = ref::gen_shape(gs, rng.chance(1, 2) ? Shape::Cycle : Shape::Random, np + rng.below(2));
    kind = "nodes~hosts";
    break;
  case 2: g = ref::gen_shape(gs, Shape::Isolated, sized(1, 40)); kind = "isolated"; break;
  case 3: { // a few sources with more than 1000 edges (hybrid-cut threshold), many parallel edges
    uint64_t n = sized(2, 40);
    g          = ref::RefGraph(n);
    unsigned hubs = 1 + (unsigned)rng.below(2);
    for (unsigned h = 0; h < hubs; ++h) {
      uint64_t s = rng.below(n), deg = 995 + rng.below(60); // around the threshold, mostly above
      for (uint64_t i = 0; i < deg; ++i)
        g.addEdge(s, rng.below(n));
    }
    uint64_t m = rng.below(3 * n);
    for (uint64_t i = 0; i < m; ++i)
      g.addEdge(rng.below(n), rng.below(n));
    kind = "bigdeg";
    break;
  }
  case 4: g = ref::gen_shape(gs, Shape::OutStar, sized(1001, 1300)); kind = "outstar>1000"; break;
  case 5: g = ref::gen_shape(gs, Shape::InStar, sized(1001, 1300)); kind = "instar>1000"; break;
  case 6: g = ref::gen_shape(gs, Shape::OutStar, sized(2, 300)); kind = "outstar"; break;
  case 7: g = ref::gen_shape(gs, Shape::InStar, sized(2, 300)); kind = "instar"; break;
  case 8: g = ref::gen_shape(gs, Shape::SelfLoops, sized(1, 60)); kind = "selfloops"; break;
  case 9: g = ref::gen_shape(gs, Shape::Parallel, sized(2, 8)); kind = "parallel"; break;
  case 10: g = ref::gen_shape(gs, Shape::LastOnly, sized(2, 200)); kind = "lastonly"; break;
  case 11: g = ref::gen_shape(gs, Shape::FirstOnly, sized(2, 200)); kind = "firstonly"; break;
  case 12: g = ref::gen_shape(gs, Shape::Bipartite, sized(2, 400)); kind = "bipartite"; break;
  case 13: g = ref::gen_shape(gs, Shape::Path, sized(2, 300)); kind = "path"; break;
  case 14: g = ref::gen_shape(gs, Shape::Grid, sized(4, std::min<uint64_t>(maxNodes, 2500))); kind = "grid"; break;
  case 15: g = ref::gen_shape(gs, Shape::Dense, sized(2, 40)); kind = "dense"; break;
  case 16:
  case 17: g = ref::gen_shape(gs, Shape::PowerLaw, sized(2, std::min<uint64_t>(maxNodes, 1500))); kind = "powerlaw"; break;
  case 18:
  case 19: g = ref::gen_shape(gs, Shape::Mixed, sized(3, std::min<uint64_t>(maxNodes, 3000))); kind = "mixed"; break;
  case 20: g = ref::gen_shape(gs, Shape::Mixed, sized(3, 12)); kind = "mixed-tiny"; break;
  case 21: g = ref::gen_shape(gs, Shape::Random, sized(1, 12)); kind = "random-tiny"; break;
  default: g = ref::gen_shape(gs, Shape::Random, sized(1, maxNodes)); kind = "random"; break;
  }
  return g;
}

// ------------------------------------------------------------------ oracle
struct HostObs {
  uint64_t host = 0, numHosts = 0, size = 0, sizeEdges = 0, numMasters = 0, nodesWithEdges = 0, gN = 0, gM = 0;
  bool transposed = false, vertexCut = false;
  uint64_t gridR = 0, gridC = 0, mrBegin = 0, mrEnd = 0;
  std::vector<uint64_t> l2g;
  std::vector<uint64_t> gidWord; // per gid
  std::vector<Edge3> edges;      // (src lid, dst lid, data)
  std::vector<std::vector<uint64_t>> mirrors;
  bool parse(const uint64_t* p, size_t n) {
    if (n < HDR || p[0] != MAGIC)
      return false;
    host = p[1], numHosts = p[2], size = p[3], sizeEdges = p[4], numMasters = p[5], nodesWithEdges = p[6];
    gN = p[7], gM = p[8], transposed = p[9], vertexCut = p[10], gridR = p[11], gridC = p[12], mrBegin = p[13],
    mrEnd       = p[14];
    uint64_t nq = p[15];
    size_t i    = HDR;
    if (i + size + nq + 1 > n)
      return false;
    l2g.assign(p + i, p + i + size);
    i += size;
    gidWord.assign(p + i, p + i + nq);
    i += nq;
    uint64_t ne = p[i++];
    if (i + 3 * ne + 1 > n)
      return false;
    edges.resize(ne);
    for (uint64_t e = 0; e < ne; ++e, i += 3)
      edges[e] = Edge3{p[i], p[i + 1], p[i + 2]};
    uint64_t nh = p[i++];
    mirrors.resize(nh);
    for (uint64_t h = 0; h < nh; ++h) {
      if (i >= n)
        return false;
      uint64_t len = p[i++];
      if (i + len > n)
        return false;
      mirrors[h].assign(p + i, p + i + len);
      i += len;
    }
    return i == n;
  }
};

struct Judge {
  Harness& H;
  std::string comp, cls;
  std::set<std::string> fired;
  Judge(Harness& h, std::string c, std::string k) : H(h), comp(std::move(c)), cls(std::move(k)) {}
  // one witness per failure kind and case
  void bad(const std::string& kind, const J& detail) {
    if (!fired.insert(kind).second)
      return;
    std::string key = "C19:" + comp + ":" + kind;
    if (!cls.empty())
      key += ":" + cls;
    H.violation(key, detail.str());
  }
};

struct Counters {
  uint64_t edges = 0, proxies = 0, masters = 0, mirrors = 0, mirrorListEntries = 0, policyEdges = 0, hostsNoNodes = 0,
           hostsNoEdges = 0, highDegSources = 0, dstOwnedSources = 0, hostIdQueries = 0, replicaEdges = 0,
           edgeCutClaimEdges = 0, edgeCutClaimHosts = 0, vertexCutClaimHosts = 0, gridClaimMirrorEndpoints = 0;
};

static std::string e3(const Edge3& e) {
  return "[" + std::to_string(e.s) + "," + std::to_string(e.d) + "," + std::to_string(e.w) + "]";
}

// fileG: the graph in the file the library was told to read; useTranspose: the library transposes in memory.
// Returns false if the observations were unusable.
static void judgeCase(Judge& Jd, Counters& C, const CaseArgs& a, const ref::RefGraph& fileG, bool useTranspose,
                      std::vector<HostObs>& obs) {
  const unsigned np = (unsigned)obs.size();
  const uint64_t N  = fileG.numNodes;
  const bool mining = a.policy == P_MINING;

  // ---- per host: id maps, proxies, masters first
  std::vector<int> masterOf(N, -1);
  std::vector<unsigned> masterCount(N, 0);
  for (unsigned h = 0; h < np; ++h) {
    HostObs& o = obs[h];
    if (o.host != h || o.numHosts != np)
      Jd.bad("host-identity", J().kv("rank", h).kv("net_id", o.host).kv("net_num", o.numHosts));
    if (o.size == 0)
      C.hostsNoNodes++;
    if (o.edges.empty())
      C.hostsNoEdges++;
    C.proxies += o.size;
    if (o.numMasters > o.size) {
      Jd.bad("more-masters-than-nodes", J().kv("host", h).kv("numMasters", o.numMasters).kv("size", o.size));
      o.numMasters = o.size;
    }
    std::vector<char> seen(N, 0);
    uint64_t nLocalFlags = 0;
    for (uint64_t g = 0; g < N && g < o.gidWord.size(); ++g)
      if (o.gidWord[g] & 1)
        ++nLocalFlags;
    for (uint64_t l = 0; l < o.size; ++l) {
      uint64_t g = o.l2g[l];
      if (g >= N) {
        Jd.bad("l2g-out-of-range", J().kv("host", h).kv("lid", l).kv("gid", g).kv("globalNodes", N));
        continue;
      }
      if (seen[g])
        Jd.bad("l2g-duplicate", J().kv("host", h).kv("lid", l).kv("gid", g));
      seen[g]    = 1;
      uint64_t w = o.gidWord[g];
      // G2L(L2G(l)) == l
      if (!(w & 1))
        Jd.bad("proxy-not-local", J().kv("host", h).kv("lid", l).kv("gid", g).kv("isLocal", false));
      else if ((w >> 32) != l)
        Jd.bad("g2l-l2g-mismatch", J().kv("host", h).kv("lid", l).kv("gid", g).kv("getLID", w >> 32));
      bool owned = (w & 4) != 0;
      // masters precede mirrors: the owned proxies are exactly the local ids [0, numMasters)
      if (owned != (l < o.numMasters))
        Jd.bad(owned ? "master-after-mirrors" : "mirror-among-masters",
               J().kv("host", h).kv("lid", l).kv("gid", g).kv("isOwned", owned).kv("numMasters", o.numMasters));
      if (owned) {
        masterCount[g]++;
        masterOf[g] = (int)h;
      }
    }
    // L2G(G2L(g)) == g on every gid the host calls local
    for (uint64_t g = 0; g < N; ++g) {
      uint64_t w = o.gidWord[g];
      if (!(w & 1))
        continue;
      uint64_t l = w >> 32;
      if (l >= o.size || o.l2g[l] != g)
        Jd.bad("l2g-g2l-mismatch",
               J().kv("host", h).kv("gid", g).kv("getLID", l).kv("size", o.size).kv("getGID", l < o.size ? o.l2g[l] : ~0ull));
    }
    if (nLocalFlags != o.size)
      Jd.bad("local-count-mismatch", J().kv("host", h).kv("isLocal_true", nLocalFlags).kv("size", o.size));
    if (o.mrBegin != 0 || o.mrEnd != o.numMasters)
      Jd.bad("master-range", J().kv("host", h).kv("begin", o.mrBegin).kv("end", o.mrEnd).kv("numMasters", o.numMasters));
    C.masters += o.numMasters;
    C.mirrors += o.size - o.numMasters;
  }
  // ---- exactly one master per node
  for (uint64_t g = 0; g < N; ++g) {
    if (masterCount[g] == 0)
      Jd.bad("node-without-master", J().kv("gid", g).kv("nodes", N));
    else if (masterCount[g] > 1)
      Jd.bad("node-with-several-masters", J().kv("gid", g).kv("count", masterCount[g]));
  }
  // ---- getHostID / isOwned agree with the master found (wherever the library can be asked)
  for (unsigned h = 0; h < np; ++h) {
    HostObs& o = obs[h];
    for (uint64_t g = 0; g < N; ++g) {
      uint64_t w = o.gidWord[g];
      if (!(w & 2))
        continue;
      C.hostIdQueries++;
      unsigned hid = (unsigned)((w >> 8) & 0xffff);
      bool owned   = (w & 4) != 0;
      if (masterCount[g] == 1 && (int)hid != masterOf[g])
        Jd.bad("hostid-not-the-master", J().kv("host", h).kv("gid", g).kv("getHostID", hid).kv("master", masterOf[g])
                                            .kv("isLocal", (bool)(w & 1)));
      if (owned != (hid == h))
        Jd.bad("isowned-vs-hostid", J().kv("host", h).kv("gid", g).kv("getHostID", hid).kv("isOwned", owned));
    }
  }
  // ---- policies that use the read assignment: masters are contiguous blocks in host order
  if (readMasterPolicy(a.policy)) {
    uint64_t next = 0;
    for (unsigned h = 0; h < np; ++h) {
      HostObs& o = obs[h];
      for (uint64_t l = 0; l < o.numMasters; ++l) {
        if (o.l2g[l] != next + l) {
          Jd.bad("masters-not-contiguous-blocks",
                 J().kv("host", h).kv("lid", l).kv("gid", o.l2g[l]).kv("expected_gid", next + l));
          break;
        }
      }
      next += o.numMasters;
    }
  }

  // ---- edges
  // expected multiset in the orientation of the local graphs
  std::vector<Edge3> expect;
  std::vector<uint64_t> fileDeg(N, 0);
  for (uint64_t s = 0; s < N; ++s) {
    fileDeg[s] = fileG.adj[s].size();
    if (fileDeg[s] > 1000)
      C.highDegSources++;
    for (auto& e : fileG.adj[s]) {
      uint64_t w = a.edgeData ? e.data : 0;
      if (mining) {
        // documented filter of the mining policies (GenericPartitioners.h keepEdge)
        uint64_t ds = fileDeg[s], dd = fileG.adj[e.dst].size();
        bool keep = a.miningDegrees ? (dd > ds || (dd == ds && s < e.dst)) : (s < e.dst);
        if (!keep)
          continue;
      }
      expect.push_back(useTranspose ? Edge3{e.dst, s, w} : Edge3{s, e.dst, w});
    }
  }
  std::sort(expect.begin(), expect.end());

  // all local edges in global ids (mining: only those under master sources)
  struct GE {
    Edge3 e;
    unsigned host;
  };
  std::vector<GE> all;
  for (unsigned h = 0; h < np; ++h) {
    HostObs& o = obs[h];
    if (!mining && np > 1)
      (o.vertexCut ? C.vertexCutClaimHosts : C.edgeCutClaimHosts)++;
    if (!mining && o.gridR && o.gridC && o.gridR * o.gridC != np) // GALOIS_ASSERT in GluonSubstrate's constructor
      Jd.bad("cartesian-grid-size", J().kv("host", h).kv("rows", o.gridR).kv("cols", o.gridC).kv("hosts", np));
    if (o.edges.size() != o.sizeEdges)
      Jd.bad("edge-count-vs-sizeEdges", J().kv("host", h).kv("iterated", o.edges.size()).kv("sizeEdges", o.sizeEdges));
    for (auto& le : o.edges) {
      // a proxy exists on every host that holds an edge of the node
      if (le.s >= o.size || le.d >= o.size || o.l2g[le.s] >= N || o.l2g[le.d] >= N) {
        Jd.bad("edge-endpoint-not-a-proxy", J().kv("host", h).kv("src_lid", le.s).kv("dst_lid", le.d).kv("size", o.size));
        continue;
      }
      if (le.s >= o.nodesWithEdges)
        Jd.bad("edge-beyond-numNodesWithEdges",
               J().kv("host", h).kv("src_lid", le.s).kv("numNodesWithEdges", o.nodesWithEdges).kv("size", o.size));
      Edge3 ge{o.l2g[le.s], o.l2g[le.d], le.w};
      // ---- what the consumer of the flags (GluonSubstrate, constructed by DistBench/Start.h with isTransposed() and
      // cartesianGrid(); MiningGraph goes to GluonEdgeSubstrate and is not judged here) assumes about the structure:
      // * !is_vertex_cut(): sync_src_to_src (not transposed) / sync_dst_to_dst (transposed) do nothing and the other
      //   calls drop the reduce or the broadcast half (GluonSubstrate.h sync_*_to_*): mirrors are never sources of
      //   local edges (not transposed), never destinations of local edges (transposed)
      if (!mining && np > 1 && !o.vertexCut) {
        C.edgeCutClaimEdges++;
        uint64_t mustBeMaster = o.transposed ? le.d : le.s;
        if (mustBeMaster >= o.numMasters)
          Jd.bad("claims-edge-cut-but-mirror-has-edges",
                 J().kv("host", h).kv("is_vertex_cut", false).kv("isTransposed", o.transposed)
                     .kv(o.transposed ? "mirror_is_destination_lid" : "mirror_is_source_lid", mustBeMaster)
                     .kv("mirror_gid", o.l2g[mustBeMaster]).kv("numMasters", o.numMasters).raw("local_edge_src_dst_gid", e3(ge))
                     .kv("grid_rows", o.gridR).kv("grid_cols", o.gridC));
      }
      // * cartesianGrid() != (0,0): isNotCommPartnerCVC skips a peer unless it shares the grid row (mirror written/read as
      //   source, not transposed; as destination, transposed) or the grid column (the other way round) with this host
      if (!mining && o.gridR && o.gridC && o.gridR * o.gridC == np) {
        for (int side = 0; side < 2; ++side) {
          uint64_t l = side == 0 ? le.s : le.d;
          if (l < o.numMasters)
            continue;
          uint64_t g = o.l2g[l];
          if (masterCount[g] != 1)
            continue;
          C.gridClaimMirrorEndpoints++;
          unsigned y   = (unsigned)masterOf[g];
          bool needRow = (side == 0) != o.transposed; // source & !transposed, destination & transposed
          bool ok      = needRow ? (h / o.gridC == y / o.gridC) : (h % o.gridC == y % o.gridC);
          if (!ok)
            Jd.bad("cartesian-grid-mirror-outside-its-row-or-column",
                   J().kv("host", h).kv("master_host", y).kv("mirror_gid", g).kv("mirror_is", side == 0 ? "source" : "destination")
                       .kv("isTransposed", o.transposed).kv("grid_rows", o.gridR).kv("grid_cols", o.gridC)
                       .kv("needs_same", needRow ? "row" : "column").raw("local_edge_src_dst_gid", e3(ge)));
        }
      }
      if (mining && le.s >= o.numMasters) {
        // replica under a mirror source: must be a kept edge (checked below), at most once per host
        C.replicaEdges++;
        auto it = std::lower_bound(expect.begin(), expect.end(), ge);
        if (it == expect.end() || !(*it == ge))
          Jd.bad("replica-edge-not-in-input", J().kv("host", h).raw("edge", e3(ge)));
        continue;
      }
      all.push_back(GE{ge, h});
    }
  }
  std::sort(all.begin(), all.end(), [](const GE& x, const GE& y) { return x.e < y.e; });
  C.edges += all.size();
  {
    // multiset comparison, first on (src,dst), then with data
    size_t i = 0, j = 0;
    auto sd  = [](const Edge3& x, const Edge3& y) { return std::tie(x.s, x.d) < std::tie(y.s, y.d); };
    while (i < expect.size() || j < all.size()) {
      if (j == all.size() || (i < expect.size() && sd(expect[i], all[j].e))) {
        // run of expected (s,d) not (or not often enough) present
        Jd.bad("edge-missing", J().raw("edge_src_dst_data", e3(expect[i])).kv("input_edges", expect.size())
                                   .kv("local_edges_total", all.size()).kv("transposed_in_memory", useTranspose));
        ++i;
      } else if (i == expect.size() || sd(all[j].e, expect[i])) {
        Jd.bad("edge-extra", J().raw("edge_src_dst_data", e3(all[j].e)).kv("host", all[j].host)
                                 .kv("input_edges", expect.size()).kv("local_edges_total", all.size()));
        ++j;
      } else {
        // same (s,d): compare the runs
        size_t i2 = i, j2 = j;
        while (i2 < expect.size() && !sd(expect[i], expect[i2]))
          ++i2;
        while (j2 < all.size() && !sd(all[j].e, all[j2].e))
          ++j2;
        if (i2 - i > j2 - j)
          Jd.bad("edge-missing", J().raw("edge_src_dst_data", e3(expect[i])).kv("copies_in_input", i2 - i)
                                     .kv("copies_found", j2 - j));
        else if (i2 - i < j2 - j)
          Jd.bad("edge-duplicated", J().raw("edge_src_dst_data", e3(expect[i])).kv("copies_in_input", i2 - i)
                                        .kv("copies_found", j2 - j).kv("host_first", all[j].host)
                                        .kv("host_last", all[j2 - 1].host));
        else
          for (size_t k = 0; k < i2 - i; ++k)
            if (expect[i + k].w != all[j + k].e.w) {
              Jd.bad("edge-data-mismatch", J().raw("expected", e3(expect[i + k])).raw("found", e3(all[j + k].e))
                                               .kv("host", all[j + k].host));
              break;
            }
        i = i2;
        j = j2;
      }
    }
  }

  // ---- mirror lists: host A's list for B holds exactly A's mirror proxies whose master is B
  for (unsigned h = 0; h < np; ++h) {
    HostObs& o = obs[h];
    if (o.mirrors.size() != np) {
      Jd.bad("mirror-lists-count", J().kv("host", h).kv("lists", o.mirrors.size()).kv("hosts", np));
      continue;
    }
    std::map<uint64_t, unsigned> listed;
    for (unsigned b = 0; b < np; ++b) {
      for (uint64_t g : o.mirrors[b]) {
        C.mirrorListEntries++;
        if (g >= N || !(o.gidWord[g] & 1) || (o.gidWord[g] >> 32) < o.numMasters) {
          Jd.bad("mirror-list-entry-not-a-mirror-proxy", J().kv("host", h).kv("peer", b).kv("gid", g));
          continue;
        }
        if (listed[g]++)
          Jd.bad("mirror-listed-twice", J().kv("host", h).kv("peer", b).kv("gid", g));
        // the peer's side: the node must be a master there
        if (b == h || masterCount[g] != 1 || masterOf[g] != (int)b)
          Jd.bad("mirror-list-peer-is-not-the-master",
                 J().kv("host", h).kv("peer", b).kv("gid", g).kv("master", g < N ? masterOf[g] : -1));
      }
    }
    for (uint64_t l = o.numMasters; l < o.size; ++l)
      if (o.l2g[l] < N && !listed.count(o.l2g[l]))
        Jd.bad("mirror-not-in-any-list", J().kv("host", h).kv("lid", l).kv("gid", o.l2g[l]));
  }

  // ---- policy-specific placement (only what the policy classes document / evidently compute)
  bool mastersOk = true;
  for (uint64_t g = 0; g < N; ++g)
    if (masterCount[g] != 1)
      mastersOk = false;
  if (mastersOk && !mining) {
    uint64_t R = obs[0].gridR, Cc = obs[0].gridC;
    for (unsigned h = 1; h < np; ++h)
      if (obs[h].gridR != R || obs[h].gridC != Cc)
        Jd.bad("cartesian-grid-differs", J().kv("host", h).kv("rows", obs[h].gridR).kv("cols", obs[h].gridC));
    bool cart = a.policy == P_CVC || a.policy == P_CVCFLIP || a.policy == P_SUGAR || a.policy == P_SUGARFLIP;
    bool hyb  = a.policy == P_HVC || a.policy == P_GINGER;
    if (cart && R * Cc != np) {
      Jd.bad("cartesian-grid-size", J().kv("rows", R).kv("cols", Cc).kv("hosts", np));
      cart = false;
    }
    // hybrid cut: per file source, every edge at the source's master or every edge at its destination's master
    std::vector<char> allSrc(N, 1), allDst(N, 1);
    for (auto& ge : all) {
      // edge in the orientation of the file that was read
      uint64_t s = useTranspose ? ge.e.d : ge.e.s, d = useTranspose ? ge.e.s : ge.e.d;
      unsigned ms = (unsigned)masterOf[s], md = (unsigned)masterOf[d];
      C.policyEdges++;
      if (cart) {
        // Cartesian vertex cut: host in the grid row of the source's master and the grid column of the destination's master
        if (ge.host / Cc != ms / Cc || ge.host % Cc != md % Cc)
          Jd.bad("policy-cartesian-block", J().kv("host", ge.host).kv("file_src", s).kv("file_dst", d).kv("master_src", ms)
                                               .kv("master_dst", md).kv("rows", R).kv("cols", Cc));
      } else if (hyb) {
        if (ge.host != ms)
          allSrc[s] = 0;
        if (ge.host != md)
          allDst[s] = 0;
      } else {
        // edge cut on the file read (NoCommunication, FennelP): only masters have outgoing edges
        if (ge.host != ms)
          Jd.bad("policy-edge-cut-edge-not-at-source-master",
                 J().kv("host", ge.host).kv("file_src", s).kv("file_dst", d).kv("master_src", ms));
      }
    }
    if (hyb)
      for (uint64_t s = 0; s < N; ++s) {
        if (fileDeg[s] && !allSrc[s] && !allDst[s])
          Jd.bad("policy-hybrid-cut-mixed-placement", J().kv("file_src", s).kv("degree", fileDeg[s]).kv("master_src", masterOf[s]));
        if (fileDeg[s] && !allSrc[s] && allDst[s])
          C.dstOwnedSources++;
      }
  }
  if (mastersOk && mining) {
    // every kept edge sits at the master of its source (checked above: only master-source edges were collected)
    for (auto& ge : all)
      if ((int)ge.host != masterOf[ge.e.s])
        Jd.bad("policy-edge-cut-edge-not-at-source-master", J().kv("host", ge.host).kv("src", ge.e.s).kv("dst", ge.e.d));
  }
}

// ------------------------------------------------------------------ helpers
static void removeStale(const std::string& dir) {
  DIR* d = opendir(dir.c_str());
  if (!d)
    return;
  while (dirent* e = readdir(d)) {
    long pid = 0;
    if (sscanf(e->d_name, "g%ld_", &pid) == 1 && pid > 0 && kill((pid_t)pid, 0) != 0)
      unlink((dir + "/" + e->d_name).c_str());
  }
  closedir(d);
}


// ------------------------------------------------------------------ crashes of any rank
// A fatal signal (GALOIS_DIE/assert abort, SIGSEGV, ...) or an ASan report inside the library call, on whichever
// rank, becomes a violation event with a deterministic key written straight to the event file; the process then
// leaves with the exit code the driver knows as "violation already recorded, restart after this case" (3) and
// mpirun takes the other ranks down. Only armed while the library under test runs.
#include <dlfcn.h>
#include <execinfo.h>
#include <fcntl.h>
#if VERIF_ASAN
extern "C" void __asan_set_error_report_callback(void (*)(const char*));
#endif
namespace crash {
static char g_path[1024];
static char g_head[1024];  // {"ev":"violation","case":K,"key":"C19:<component>:
static char g_tail[6144];  // ,"params":{...}
static char g_files[3][600]; // input files of the case (removed when the job goes down)
static volatile sig_atomic_t g_armed = 0;
static unsigned g_rank               = 0;

static size_t put(char* b, size_t at, size_t cap, const char* s) {
  while (*s && at + 1 < cap)
    b[at++] = *s++;
  b[at] = 0;
  return at;
}
static size_t putNum(char* b, size_t at, size_t cap, unsigned long v, unsigned base = 10) {
  char t[32];
  int n = 0;
  do {
    unsigned d = (unsigned)(v % base);
    t[n++]     = (char)(d < 10 ? '0' + d : 'a' + d - 10);
    v /= base;
  } while (v && n < 31);
  while (n && at + 1 < cap)
    b[at++] = t[--n];
  b[at] = 0;
  return at;
}
// JSON-safe copy of arbitrary text
static size_t putText(char* b, size_t at, size_t cap, const char* s, size_t maxn) {
  for (size_t i = 0; s[i] && i < maxn && at + 1 < cap; ++i) {
    unsigned char c = (unsigned char)s[i];
    b[at++]         = (c < 0x20 || c == '"' || c == '\\' || c > 0x7e) ? ' ' : (char)c;
  }
  b[at] = 0;
  return at;
}
static void emit(const char* kind, const char* what, const char* text, unsigned long addr) {
  static char line[16384];
  size_t n = 0;
  n = put(line, n, sizeof line, g_head);
  n = put(line, n, sizeof line, kind);
  n = put(line, n, sizeof line, "\"");
  n = put(line, n, sizeof line, g_tail);
  n = put(line, n, sizeof line, ",\"detail\":{\"rank\":");
  n = putNum(line, n, sizeof line, g_rank);
  n = put(line, n, sizeof line, ",\"what\":\"");
  n = putText(line, n, sizeof line, what, 200);
  n = put(line, n, sizeof line, "\",\"fault_address\":\"0x");
  n = putNum(line, n, sizeof line, addr, 16);
  n = put(line, n, sizeof line, "\",\"frames\":[");
  void* fr[24];
  int nf = backtrace(fr, 24);
  for (int i = 0; i < nf; ++i) {
    Dl_info di;
    const char* mod   = "?";
    unsigned long off = (unsigned long)fr[i];
    if (dladdr(fr[i], &di) && di.dli_fname) {
      const char* sl = strrchr(di.dli_fname, '/');
      mod            = sl ? sl + 1 : di.dli_fname;
      off            = (unsigned long)fr[i] - (unsigned long)di.dli_fbase;
    }
    n = put(line, n, sizeof line, i ? ",\"" : "\"");
    n = putText(line, n, sizeof line, mod, 40);
    n = put(line, n, sizeof line, "+0x");
    n = putNum(line, n, sizeof line, off, 16);
    n = put(line, n, sizeof line, "\"");
  }
  n = put(line, n, sizeof line, "],\"report\":\"");
  n = putText(line, n, sizeof line, text ? text : "", 1500);
  n = put(line, n, sizeof line, "\"}}\n");
  int fd = open(g_path, O_WRONLY | O_APPEND);
  if (fd >= 0) {
    ssize_t r = write(fd, line, n);
    (void)r;
    close(fd);
  }
  for (auto& f : g_files)
    if (f[0])
      unlink(f);
}
static void onSignal(int sig, siginfo_t* si, void*) {
  if (!g_armed) {
    signal(sig, SIG_DFL);
    raise(sig);
    return;
  }
  g_armed          = 0;
  const char* name = sig == SIGSEGV ? "SIGSEGV" : sig == SIGABRT ? "SIGABRT" : sig == SIGBUS ? "SIGBUS" : sig == SIGFPE ? "SIGFPE" : "SIGILL";
  char kind[32]    = "crash-";
  put(kind, 6, sizeof kind, name);
  emit(kind, sig == SIGABRT ? "abort() inside the library call (GALOIS_DIE / GALOIS_ASSERT / assert): message on stderr"
                            : "fatal signal inside the library call",
       "", (unsigned long)si->si_addr);
  _exit(3);
}
#if VERIF_ASAN
static void onAsan(const char* report) {
  if (!g_armed)
    return;
  g_armed       = 0;
  char kind[96] = "asan-";
  const char* p = strstr(report, "AddressSanitizer: ");
  size_t n      = 5;
  if (p)
    for (p += 18; *p && *p != ' ' && *p != '\n' && n + 1 < sizeof kind; ++p)
      kind[n++] = *p;
  kind[n] = 0;
  emit(kind, "AddressSanitizer report inside the library call", report, 0);
  _exit(3);
}
#endif
static void install(const char* outPath, unsigned rank) {
  snprintf(g_path, sizeof g_path, "%s", outPath);
  g_rank = rank;
  struct sigaction sa;
  memset(&sa, 0, sizeof sa);
  sa.sa_sigaction = onSignal;
  sa.sa_flags     = SA_SIGINFO | SA_NODEFER;
  sigemptyset(&sa.sa_mask);
#if VERIF_ASAN
  int sigs[] = {SIGABRT}; // memory errors: through the ASan report callback (keeps the diagnosis)
  __asan_set_error_report_callback(onAsan);
#else
  int sigs[] = {SIGSEGV, SIGABRT, SIGBUS, SIGFPE, SIGILL};
#endif
  for (int sg : sigs)
    sigaction(sg, &sa, nullptr);
}
static void arm(long k, const std::string& comp, const std::string& params, const c19::CaseArgs& a) {
  snprintf(g_files[0], sizeof g_files[0], "%s", a.graphFile.c_str());
  snprintf(g_files[1], sizeof g_files[1], "%s", a.transposeFile.c_str());
  snprintf(g_files[2], sizeof g_files[2], "%s", a.mastersFile.c_str());
  snprintf(g_head, sizeof g_head, "{\"ev\":\"violation\",\"case\":%ld,\"key\":\"C19:%s:", k, comp.c_str());
  snprintf(g_tail, sizeof g_tail, ",\"params\":%s", params.c_str());
  g_armed = 1;
}
static void disarm() { g_armed = 0; }
} // namespace crash

int main(int argc, char** argv) {
  {
    const char* rk = getenv("OMPI_COMM_WORLD_RANK");
    if (rk && atoi(rk) != 0)
      setenv("VERIF_NO_HANG_MONITOR", "1", 1);
  }
  Harness H("C19", argc, argv);
  H.hangWindow = 240; // 2 min without any progress of any thread on rank 0
  galois::DistMemSys G;
  auto& net         = galois::runtime::getSystemNetworkInterface(); // initialises MPI (MPI_THREAD_MULTIPLE)
  const unsigned me = net.ID, np = net.Num;
  MPI_Comm comm;
  MPI_Comm_dup(MPI_COMM_WORLD, &comm); // private communicator: independent of the Galois network layer's traffic
  {
    int r = 0, s = 0;
    MPI_Comm_rank(comm, &r);
    MPI_Comm_size(comm, &s);
    if ((unsigned)r != me || (unsigned)s != np) {
      fprintf(stderr, "c19: MPI rank/size %d/%d differ from net.ID/Num %u/%u\n", r, s, me, np);
      return 2;
    }
  }
  {
    const char* outp = nullptr;
    for (int i = 1; i + 1 < argc; ++i)
      if (!strcmp(argv[i], "--out"))
        outp = argv[i + 1];
    if (outp)
      crash::install(outp, me);
  }
  const std::string dir = "/var/tmp/c19";
  long pid0             = (long)getpid();
  MPI_Bcast(&pid0, 1, MPI_LONG, 0, comm);
  if (me == 0) {
    mkdir(dir.c_str(), 0777);
    removeStale(dir);
  }
  const long onlyCombo   = H.paramInt("combo", -1);
  const long onlyThreads = H.paramInt("threads", -1);
  const uint64_t maxNodes = (uint64_t)H.paramInt("maxnodes", H.thorough ? 12000 : 2500);
  const uint64_t salt     = (uint64_t)H.paramInt("salt", 0);
  const bool noMining     = H.paramInt("nomining", 0) != 0;

  std::vector<uint64_t> mine, allWords;
  std::vector<int> counts(np), displs(np);

  for (long k = H.firstCase(); k < H.endCase(); ++k) {
    Rng rng(mix(H.caseSeed(k), salt));
    // ---------------- the case (identical draws on every rank)
    unsigned ci = onlyCombo >= 0 ? (unsigned)onlyCombo % NCOMBOS : (unsigned)((k + H.seed * 7 + salt * 3) % NCOMBOS);
    if (noMining && COMBOS[ci].policy == P_MINING)
      ci = (unsigned)rng.below(NCOMBOS - 2);
    const Combo& cb = COMBOS[ci];
    CaseArgs a;
    a.policy    = cb.policy;
    a.inCSC     = cb.inCSC;
    a.outCSC    = cb.outCSC;
    a.symmetric = cb.sym;
    const bool mining = cb.policy == P_MINING;
    a.miningDegrees   = mining && std::string(cb.scheme) == "mining-degrees";
    a.miningSort      = rng.chance(1, 2);
    unsigned threads  = onlyThreads > 0 ? (unsigned)onlyThreads : 1 + (unsigned)rng.below(2);
    a.defaults        = rng.chance(1, 5);
    a.cuspAsync       = rng.chance(1, 2);
    a.stateRounds     = (uint32_t)rng.pick<uint64_t>({1, 1, 2, 3, 7, 25, 100});
    a.readPolicy      = (unsigned)rng.below(3);
    a.nodeWeight      = (uint32_t)rng.pick<uint64_t>({0, 0, 1, 5, 50});
    a.edgeWeight      = (uint32_t)rng.pick<uint64_t>({0, 0, 1, 3});
    if (a.defaults) {
      a.cuspAsync = true, a.stateRounds = 100, a.readPolicy = 1, a.nodeWeight = 0, a.edgeWeight = 0;
    }
    unsigned dataMode = (unsigned)rng.below(4); // 0 void/no data in file, 1..2 uint32 data, 3 void but the file carries data
    if (mining)
      dataMode = 0; // MiningGraph never reads edge data
    a.edgeData         = dataMode == 1 || dataMode == 2;
    uint64_t fileEsz   = dataMode == 0 ? 0 : 4;
    std::string kind;
    ref::RefGraph g = makeGraph(rng, np, maxNodes, H.thorough && H.paramInt("nohuge", 0) == 0, kind);
    if (a.symmetric)
      symmetrize(g);
    if (mining) {
      simplify(g);
      symmetrize(g);
      simplify(g);
    }
    ref::assign_data(g, rng.next(), (ref::DataMode)rng.below(3), fileEsz);
    if (a.symmetric && fileEsz) {
      // symmetric input: the reverse edge carries the same data
      std::map<std::pair<uint64_t, uint64_t>, std::vector<uint64_t>> w;
      for (uint64_t s = 0; s < g.numNodes; ++s)
        for (auto& e : g.adj[s])
          if (s <= e.dst)
            w[{s, e.dst}].push_back(e.data);
      std::map<std::pair<uint64_t, uint64_t>, size_t> used;
      for (uint64_t s = 0; s < g.numNodes; ++s)
        for (auto& e : g.adj[s])
          if (s > e.dst) {
            auto& v = w[{e.dst, s}];
            size_t& u = used[{e.dst, s}];
            if (u < v.size())
              e.data = v[u++];
          }
    }
    const uint64_t N = g.numNodes, M = g.numEdges();
    bool wantMasters = cb.mastersFileOk && N >= np && rng.chance(1, 2);
    std::vector<uint64_t> cuts;
    if (wantMasters) {
      // random non-empty contiguous reader blocks
      std::set<uint64_t> c;
      while (c.size() < np - 1)
        c.insert(1 + rng.below(N - 1));
      cuts.push_back(0);
      cuts.insert(cuts.end(), c.begin(), c.end());
      cuts.push_back(N);
    }
    unsigned sleeper = (unsigned)rng.below(np * 3); // >= np: nobody
    bool stripPad    = rng.chance(1, 2);
    unsigned sleepUs = 200 + (unsigned)rng.below(20000);
    uint64_t pseed   = rng.next();
    unsigned pointProb = (unsigned)rng.pick<uint64_t>({0, 0, 0, 1024});

    std::string base  = dir + "/g" + std::to_string(pid0) + "_" + std::to_string(k);
    a.graphFile       = base + ".gr";
    a.transposeFile   = (a.inCSC && !a.symmetric) ? base + ".tgr" : "";
    a.mastersFile     = wantMasters ? base + ".masters" : "";
    const bool useTranspose = !a.symmetric && (a.inCSC != a.outCSC);
    ref::RefGraph tg(0);
    if (a.inCSC && !a.symmetric)
      tg = ref::transpose(g);
    const ref::RefGraph& fileG = (a.inCSC && !a.symmetric) ? tg : g;

    // component = policy class + configuration class (crash keys are built from it by the driver)
    std::string comp = policyName(cb.policy);
    if (wantMasters)
      comp += "+mastersFile";
    else if (M == 0)
      comp += "/no-edges";
    else if (N < np)
      comp += "/nodes<hosts";
    const std::string cls; // no further class: the component carries it
    const std::string params =
        J().kv("component", comp).kv("scheme", cb.scheme).kv("dir", cb.dir).kv("hosts", np).kv("threads", threads)
                     .kv("input", a.inCSC ? "CSC" : "CSR").kv("output", a.outCSC ? "CSC" : "CSR").kv("symmetric", a.symmetric)
                     .kv("edgeData", a.edgeData ? "uint32" : "void").kv("fileEdgeSize", fileEsz).kv("defaults", a.defaults)
                     .kv("cuspAsync", a.cuspAsync).kv("stateRounds", a.stateRounds).kv("readPolicy", a.readPolicy)
                     .kv("nodeWeight", a.nodeWeight).kv("edgeWeight", a.edgeWeight).raw("mastersCuts", jarr(cuts))
                     .kv("graph", kind).kv("nodes", N).kv("edges", M).kv("sleeper", sleeper < np ? (int)sleeper : -1)
                     .kv("combo", ci).str();
    if (me == 0) {
      // version 1 without edge data and with an odd edge count: the 4 pad bytes at the end are optional
      auto writeGr = [&](const std::string& path, const ref::RefGraph& gg) {
        std::vector<uint8_t> b = ref::encode_gr(gg, 1, fileEsz);
        if (stripPad && fileEsz == 0 && (M % 2) == 1)
          b.resize(b.size() - 4);
        ref::write_file_bytes(path, b);
      };
      writeGr(a.graphFile, g);
      if (!a.transposeFile.empty())
        writeGr(a.transposeFile, tg);
      if (wantMasters) {
        FILE* f = fopen(a.mastersFile.c_str(), "w");
        if (!f) {
          perror("masters file");
          _exit(2);
        }
        for (unsigned h = 0; h < np; ++h)
          fprintf(f, "Host %u gets masters from nodes %llu to node %llu\n", h, (unsigned long long)cuts[h],
                  (unsigned long long)(cuts[h + 1] - 1));
        fclose(f);
      }
      H.hangKey = "C19:" + comp + ":hang";
      H.begin(k, params);
    }
    MPI_Barrier(comm);

    // ---------------- the library under test
    galois::setActiveThreads(threads);
    if (sleeper == me)
      sleep_us(sleepUs);
    if (pointProb)
      perturb_case(pseed ^ me, pointProb, 0, 20);
    mine.clear();
    crash::arm(k, comp, params, a);
    RUNNERS[cb.policy](a, mine);
    crash::disarm();
    perturb_off();
    progress();

    // ---------------- gather (plain MPI collectives)
    int myCount = (int)mine.size();
    MPI_Gather(&myCount, 1, MPI_INT, counts.data(), 1, MPI_INT, 0, comm);
    size_t total = 0;
    if (me == 0)
      for (unsigned h = 0; h < np; ++h) {
        displs[h] = (int)total;
        total += (size_t)counts[h];
      }
    allWords.resize(me == 0 ? total : 0);
    MPI_Gatherv(mine.data(), myCount, MPI_UINT64_T, allWords.data(), counts.data(), displs.data(), MPI_UINT64_T, 0, comm);

    if (me != 0)
      continue;

    // ---------------- rank 0 judges
    unlink(a.graphFile.c_str());
    if (!a.transposeFile.empty())
      unlink(a.transposeFile.c_str());
    if (!a.mastersFile.empty())
      unlink(a.mastersFile.c_str());

    Judge Jd(H, comp, cls);
    Counters C;
    std::vector<HostObs> obs(np);
    bool parsed = true;
    for (unsigned h = 0; h < np; ++h)
      if (!obs[h].parse(allWords.data() + displs[h], (size_t)counts[h]) || obs[h].gidWord.size() != N) {
        parsed = false;
        Jd.bad("global-size-mismatch", J().kv("host", h).kv("globalSize", obs[h].gN).kv("nodes_in_file", N));
      }
    if (parsed)
      judgeCase(Jd, C, a, fileG, useTranspose, obs);
    bool transposedFlag = parsed && obs[0].transposed;
    bool someEmptyHost  = C.hostsNoNodes > 0;
    bool nontrivial     = parsed && np >= 2 && M > 0 && (C.mirrors > 0 || C.hostsNoEdges + 1 < np);
    // option class: only what can influence the run (rounds/async only drive the master assignment phase of
    // GingerP/FennelP/Sugar*; the read policy is overridden by a masters file); the Input.h default call is
    // the class async/many-rounds/rp1
    std::string opt;
    if (!readMasterPolicy(cb.policy))
      opt = std::string(a.cuspAsync ? "async" : "bsp") + (a.stateRounds == 1 ? "/r1" : a.stateRounds <= 7 ? "/rfew" : "/rmany");
    if (!wantMasters)
      opt += "/rp" + std::to_string(a.readPolicy);
    std::string sig = std::string(cb.scheme) + "/" + cb.dir + "|np" + std::to_string(np) + "|t" + std::to_string(threads) + "|" +
                      kind + "|" + (a.edgeData ? "u32" : fileEsz ? "void+data" : "void") + "|" + opt +
                      (wantMasters ? "|mf" : "") + (someEmptyHost ? "|emptyhost" : "");
    H.end(k, sig, nontrivial,
          J().kv("edges_checked", C.edges).kv("proxies_checked", C.proxies).kv("masters", C.masters).kv("mirrors", C.mirrors)
              .kv("mirror_list_entries", C.mirrorListEntries).kv("policy_checked_edges", C.policyEdges)
              .kv("hostid_queries", C.hostIdQueries).kv("hosts_without_nodes", C.hostsNoNodes)
              .kv("hosts_without_edges", C.hostsNoEdges).kv("cases_nodes_lt_hosts", (int)(N < np))
              .kv("sources_over_1000_edges", C.highDegSources).kv("sources_placed_at_destination_masters", C.dstOwnedSources)
              .kv("cases_transposed_in_memory", (int)useTranspose).kv("cases_isTransposed_flag", (int)transposedFlag)
              .kv("cases_symmetric", (int)a.symmetric).kv("cases_input_csc", (int)(a.inCSC && !a.symmetric))
              .kv("cases_edge_data", (int)a.edgeData).kv("cases_async", (int)(a.cuspAsync))
              .kv("cases_masters_file", (int)wantMasters).kv("cases_defaults", (int)a.defaults)
              .kv("cases_multi_host", (int)(np > 1)).kv("cases_two_threads", (int)(threads > 1))
              .kv("edges_under_edge_cut_claim", C.edgeCutClaimEdges).kv("hosts_claiming_edge_cut", C.edgeCutClaimHosts)
              .kv("hosts_claiming_vertex_cut", C.vertexCutClaimHosts).kv("mirror_endpoints_under_grid_claim", C.gridClaimMirrorEndpoints)
              .kv("mining_replica_edges", C.replicaEdges).kv("cases_mining", (int)mining).str());
  }
  MPI_Barrier(comm);
  MPI_Comm_free(&comm);
  return 0;
}
