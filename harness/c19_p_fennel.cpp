// C19 — instantiation of cuspPartitionGraph<FennelP, char, void|uint32_t> (see c19_extract.h)
#include "c19_extract.h"
void c19::run_fennel(const CaseArgs& a, std::vector<uint64_t>& out) { runCusp<FennelP>(a, out); }
