// C13 — work-division routines, part 1: block_range (integer and iterator
// overloads), split_range, and the Range.h range objects StandardRange /
// SpecificRange evaluated on pool threads.
//
// Oracle (ref/c13_tiling.h): for every part index call the routine; pieces must
// be well formed, the non-empty ones laid end to end from the input's begin to
// its end. Empty pieces may sit anywhere.
//
// Case plan: cases [0, E) are the exhaustively enumerated sub-spaces (one slice
// each, independent of the seed except for base offsets / container contents),
// cases >= E cycle through the random families.
#define VERIF_MAIN_TU
#include "c13_common.h"

#include "galois/Galois.h"
#include "galois/gstl.h"
#include "galois/runtime/Range.h"

#include <boost/iterator/counting_iterator.hpp>

#include <deque>
#include <forward_list>
#include <limits>
#include <list>
#include <tuple>

using namespace c13;

static unsigned FULL_ENUM = 6000; // part counts up to this are enumerated completely

// ------------------------------------------------------------------ block_range, integers
static const char* INT_NAMES[] = {"unsigned", "long", "unsigned long", "long long", "unsigned long long"};
constexpr int NINT             = 5;

template <typename F>
static void withInt(int ti, F&& f) {
  switch (ti) {
  case 0: f((unsigned)0); break;
  case 1: f((long)0); break;
  case 2: f((unsigned long)0); break;
  case 3: f((long long)0); break;
  default: f((unsigned long long)0); break;
  }
}

// ids to sample when num is too large to enumerate: windows of consecutive ids
// at the start, at the end, at random places and around the id where the pieces
// turn empty (located by bisection over the routine's own answers; that only
// selects what to look at, it is not part of the verdict)
template <typename CallFirstIsEnd>
static std::vector<std::pair<uint64_t, uint64_t>> sampleWindows(Rng& rng, uint64_t num, CallFirstIsEnd&& isPastData) {
  const uint64_t W = 48;
  std::vector<uint64_t> starts = {0, num > W ? num - W : 0};
  for (int i = 0; i < 4; ++i)
    starts.push_back(rng.below(num));
  uint64_t lo = 0, hi = num; // first id whose piece starts at the end of the data
  while (lo < hi) {
    uint64_t mid = lo + (hi - lo) / 2;
    if (isPastData(mid))
      hi = mid;
    else
      lo = mid + 1;
  }
  starts.push_back(lo > W / 2 ? lo - W / 2 : 0);
  std::sort(starts.begin(), starts.end());
  std::vector<std::pair<uint64_t, uint64_t>> w;
  for (uint64_t s : starts) {
    uint64_t e = std::min(num, s + W);
    if (!w.empty() && s <= w.back().second)
      w.back().second = std::max(w.back().second, e);
    else
      w.push_back({s, e});
  }
  return w;
}

template <typename T>
static void intDivision(Acc& A, Rng& rng, T b, T e, unsigned num, bool exhaustive, const char* cls) {
  Tiling t((pos_t)b, (pos_t)e, num);
  auto call = [&](unsigned id) {
    auto p = galois::block_range(b, e, id, num);
    ++A.calls;
    t.feed(id, (pos_t)p.first, (pos_t)p.second);
  };
  if (num <= FULL_ENUM) {
    for (unsigned id = 0; id < num; ++id)
      call(id);
  } else {
    auto w = sampleWindows(rng, num, [&](uint64_t id) {
      ++A.calls;
      return galois::block_range(b, e, (unsigned)id, num).first == e;
    });
    for (auto& ww : w)
      for (uint64_t id = ww.first; id < ww.second; ++id)
        call((unsigned)id);
  }
  uint64_t elems = (uint64_t)e - (uint64_t)b;
  A.finishDivision(t, elems, exhaustive, cls, [&] {
    return J().kv("type", "integer").kv("b", c13ref::pos_str((pos_t)b)).kv("e", c13ref::pos_str((pos_t)e))
        .kv("num", num).str();
  });
}

// a legal base for a range of `dist` elements of type T (b + dist must fit)
template <typename T>
static T pickBase(Rng& rng, uint64_t dist) {
  typedef std::numeric_limits<T> L;
  uint64_t room = (uint64_t)L::max() - dist; // b in [min, max - dist]
  switch (rng.below(5)) {
  case 0: return (T)0;
  case 1: return (T)room; // e == max
  case 2: return L::is_signed ? L::min() : (T)std::min<uint64_t>(room, 1);
  case 3: return L::is_signed ? (T)(-(long long)std::min<uint64_t>(dist / 2 + 1, 1000000)) // straddles 0
                              : (T)rng.below(room + 1 ? room + 1 : room);
  default: return (T)rng.below(std::min<uint64_t>(room, 1 << 20) + 1);
  }
}

template <typename T>
static void intExhaustive(Acc& A, Rng& rng, unsigned maxSize, unsigned pLo, unsigned pHi) {
  for (unsigned size = 0; size <= maxSize; ++size) {
    T b = pickBase<T>(rng, size);
    for (unsigned num = pLo; num <= pHi; ++num)
      intDivision<T>(A, rng, b, (T)(b + (T)size), num, true, "small");
  }
}

template <typename T>
static void intRandomLarge(Acc& A, Rng& rng, unsigned n) {
  typedef std::numeric_limits<T> L;
  for (unsigned i = 0; i < n; ++i) {
    uint64_t dist = logUniform(rng, (uint64_t)L::max() / 4);
    unsigned num  = rng.chance(1, 5) ? (unsigned)logUniform(rng, std::min<uint64_t>(0xffffffffULL, (uint64_t)L::max() / 4))
                                     : 1 + (unsigned)rng.below(3000);
    if (!num) num = 1;
    T b = pickBase<T>(rng, dist);
    intDivision<T>(A, rng, b, (T)(b + (T)dist), num, false, "large");
  }
}

// dist + num (- 1) == max(T) - delta: the largest sizes for which the round-up
// quotient does not overflow
template <typename T>
static void intExtremes(Acc& A, Rng& rng, bool hugeNum, unsigned n) {
  typedef std::numeric_limits<T> L;
  const uint64_t M = (uint64_t)L::max();
  for (unsigned i = 0; i < n; ++i) {
    unsigned num;
    if (hugeNum)
      num = (unsigned)rng.pick<uint64_t>({0xffffffffULL, 0xfffffffeULL, 0x80000000ULL, 0x7fffffffULL, 0x10000ULL,
                                          65537ULL, 1000003ULL, (uint64_t)(6001 + rng.below(0xffff0000ULL))});
    else
      num = (unsigned)rng.pick<uint64_t>({1, 2, 3, 4, 5, 7, 8, 16, 63, 64, 100, 1000, 4096, 4097, 1 + rng.below(5999)});
    if ((uint64_t)num > M) // 32-bit T: keep dist >= 0
      num = (unsigned)M;
    uint64_t delta = rng.pick<uint64_t>({0, 0, 0, 1, 2, 3, rng.below(num + 1ULL), rng.below(1000)});
    // Domain ("below the overflow threshold"): the routine evaluates (dist + num - 1) left to right, so for
    // signed T the intermediate dist + num must fit (dist + num <= max); for unsigned T the wrap-around of
    // the intermediate is harmless and the largest legal size is dist + num - 1 == max.
    uint64_t top   = L::is_signed ? M - num : M - (num - 1ULL);
    uint64_t dist  = top > delta ? top - delta : top;
    T b            = pickBase<T>(rng, dist);
    intDivision<T>(A, rng, b, (T)(b + (T)dist), num, false, hugeNum ? "threshold-huge-num" : "threshold");
    A.extra["threshold_divisions"]++;
  }
}

template <typename T>
static void intMoreParts(Acc& A, Rng& rng, unsigned n) {
  for (unsigned i = 0; i < n; ++i) {
    uint64_t dist = rng.below(65);
    unsigned num  = (unsigned)rng.pick<uint64_t>({dist + 1, 2 * dist + 1, 1000, 5999, 65536, 1ULL << 20, 0xffffffffULL,
                                                  dist + 1 + rng.below(5000)});
    T b           = pickBase<T>(rng, dist);
    intDivision<T>(A, rng, b, (T)(b + (T)dist), num, false, "more-parts");
  }
}

// ------------------------------------------------------------------ iterators
// Every container stores element i == i, so the position of an iterator is
// (it == end ? n : *it) whatever its category.
static const char* ITER_NAMES[] = {"vector::iterator", "const int*",        "deque::iterator",
                                   "list::iterator",   "forward_list::iterator", "counting_iterator<uint64_t>",
                                   "counting_iterator<int>", "counting_iterator<uint32_t>"};
constexpr int NITER  = 8;
constexpr int NCONT  = 5; // first five are real containers

template <typename It>
struct View {
  It b, e;
  uint64_t n;
  pos_t base; // position of b
  pos_t pos(const It& it) const { return it == e ? base + (pos_t)n : (pos_t)*it; }
};

struct Containers {
  std::vector<int> v;
  std::deque<int> d;
  std::list<int> l;
  std::forward_list<int> f;
  void build(int kind, size_t n) {
    switch (kind) {
    case 0:
    case 1:
      v.resize(n);
      for (size_t i = 0; i < n; ++i) v[i] = (int)i;
      break;
    case 2:
      d.resize(n);
      for (size_t i = 0; i < n; ++i) d[i] = (int)i;
      break;
    case 3:
      l.clear();
      for (size_t i = 0; i < n; ++i) l.push_back((int)i);
      break;
    case 4:
      f.clear();
      for (size_t i = n; i > 0; --i) f.push_front((int)(i - 1));
      break;
    }
  }
};

// run f(view) for iterator kind `kind` over n elements (containers) or over
// [base, base+n) (counting iterators)
template <typename F>
static void withView(int kind, Containers& C, uint64_t n, pos_t base, F&& f) {
  switch (kind) {
  case 0: C.build(0, n); f(View<std::vector<int>::iterator>{C.v.begin(), C.v.end(), n, 0}); break;
  case 1: {
    C.build(1, n);
    const int* p = C.v.data();
    f(View<const int*>{p, p + n, n, 0});
    break;
  }
  case 2: C.build(2, n); f(View<std::deque<int>::iterator>{C.d.begin(), C.d.end(), n, 0}); break;
  case 3: C.build(3, n); f(View<std::list<int>::iterator>{C.l.begin(), C.l.end(), n, 0}); break;
  case 4: C.build(4, n); f(View<std::forward_list<int>::iterator>{C.f.begin(), C.f.end(), n, 0}); break;
  case 5: {
    typedef boost::counting_iterator<uint64_t> I;
    f(View<I>{I((uint64_t)base), I((uint64_t)base + n), n, base});
    break;
  }
  case 6: {
    typedef boost::counting_iterator<int> I;
    f(View<I>{I((int)base), I((int)(base + (pos_t)n)), n, base});
    break;
  }
  default: {
    typedef boost::counting_iterator<uint32_t> I;
    f(View<I>{I((uint32_t)base), I((uint32_t)(base + (pos_t)n)), n, base});
    break;
  }
  }
}

// counting iterators compare by value, so pos() must not treat "== e" specially
template <typename Inc>
static pos_t cpos(const boost::counting_iterator<Inc>& it) { return (pos_t)*it; }

template <typename It>
struct PosOf {
  static pos_t get(const View<It>& v, const It& it) { return v.pos(it); }
};
template <typename Inc>
struct PosOf<boost::counting_iterator<Inc>> {
  static pos_t get(const View<boost::counting_iterator<Inc>>&, const boost::counting_iterator<Inc>& it) {
    return (pos_t)*it;
  }
};

template <typename It>
static void iterDivision(Acc& A, Rng& rng, const View<It>& v, unsigned num, bool exhaustive, const char* cls,
                         const char* tname) {
  Tiling t(v.base, v.base + (pos_t)v.n, num);
  auto call = [&](unsigned id) {
    auto p = galois::block_range(v.b, v.e, id, num);
    ++A.calls;
    t.feed(id, PosOf<It>::get(v, p.first), PosOf<It>::get(v, p.second));
  };
  if (num <= FULL_ENUM) {
    for (unsigned id = 0; id < num; ++id)
      call(id);
  } else {
    auto w = sampleWindows(rng, num, [&](uint64_t id) {
      ++A.calls;
      return galois::block_range(v.b, v.e, (unsigned)id, num).first == v.e;
    });
    for (auto& ww : w)
      for (uint64_t id = ww.first; id < ww.second; ++id)
        call((unsigned)id);
  }
  A.finishDivision(t, v.n, exhaustive, cls, [&] {
    return J().kv("type", tname).kv("base", c13ref::pos_str(v.base)).kv("size", v.n).kv("num", num).str();
  });
}

static pos_t pickIterBase(Rng& rng, int kind, uint64_t n) {
  if (kind == 5) {
    // boost's counting_iterator<uint64_t> computes distances in (signed) long: all values must stay below 2^63
    uint64_t room = 0x7fffffffffffffffULL - n;
    return (pos_t)rng.pick<uint64_t>({0, room, std::min<uint64_t>(room, rng.below(1000)), rng.below(room + 1)});
  }
  if (kind == 6) { // int: [INT_MIN, INT_MAX - n]
    int64_t room = (int64_t)std::numeric_limits<int>::max() - (int64_t)n;
    int64_t c    = rng.pick<int64_t>({0, room, (int64_t)std::numeric_limits<int>::min(),
                                      -std::min<int64_t>((int64_t)n / 2 + 1, 100000),
                                      rng.range(std::numeric_limits<int>::min(), room)});
    return (pos_t)std::min(c, room);
  }
  if (kind == 7) {
    uint64_t room = 0xffffffffULL - n;
    return (pos_t)rng.pick<uint64_t>({0, room, rng.below(room + 1)});
  }
  return 0;
}

static void iterExhaustive(Acc& A, Rng& rng, int kind, unsigned maxSize, unsigned pLo, unsigned pHi) {
  Containers C;
  for (unsigned size = 0; size <= maxSize; ++size) {
    withView(kind, C, size, pickIterBase(rng, kind, size), [&](auto v) {
      for (unsigned num = pLo; num <= pHi; ++num)
        iterDivision(A, rng, v, num, true, "small", ITER_NAMES[kind]);
    });
  }
}

static void iterRandom(Acc& A, Rng& rng, int kind, unsigned n, bool extremes) {
  Containers C;
  for (unsigned i = 0; i < n; ++i) {
    uint64_t size;
    unsigned num;
    const char* cls = "large";
    if (kind < NCONT) {
      size = rng.chance(1, 4) ? rng.below(70) : logUniform(rng, kind >= 3 ? 20000 : 200000);
      num  = rng.chance(1, 4) ? (unsigned)(size + 1 + rng.below(200)) : 1 + (unsigned)rng.below(kind >= 3 ? 64 : 400);
      if (kind >= 3 && num > 300)
        num = 300; // linear-time advance: keep the work bounded
    } else {
      uint64_t maxDist = kind == 5 ? 0x7fffffffffffffffULL : 0xffffffffULL; // distance must fit difference_type / value range
      if (extremes) {
        size = maxDist - rng.pick<uint64_t>({0, 0, 1, 2, rng.below(1000), rng.below(1ULL << 31)});
        cls  = "max-distance";
      } else
        size = logUniform(rng, maxDist / 2);
      num = rng.chance(1, 4) ? (unsigned)logUniform(rng, 0xffffffffULL) : 1 + (unsigned)rng.below(3000);
      if (!num) num = 1;
    }
    withView(kind, C, size, pickIterBase(rng, kind, size),
             [&](auto v) { iterDivision(A, rng, v, num, false, cls, ITER_NAMES[kind]); });
  }
}

// ------------------------------------------------------------------ split_range
// one split is a division into 2 pieces [b,m) [m,e); additionally the way the
// applications use it (recursive bisection down to single elements, Mesh.h /
// Barneshut.cpp / StableIterator.h) must produce leaves that tile the range.
template <typename It>
static void splitLeaves(Acc& A, const View<It>& v, It b, It e, uint64_t n, std::vector<std::pair<pos_t, pos_t>>& leaves,
                        uint64_t& docOk, unsigned depth) {
  if (n <= 1 || depth > 80) {
    leaves.push_back({PosOf<It>::get(v, b), PosOf<It>::get(v, e)});
    return;
  }
  It m = galois::split_range(b, e);
  ++A.calls;
  pos_t pb = PosOf<It>::get(v, b), pm = PosOf<It>::get(v, m), pe = PosOf<It>::get(v, e);
  if (pm - pb == (pos_t)((n + 1) / 2))
    ++docOk;
  if (pm < pb || pm > pe) { // not a division at all: record as an inverted leaf and stop descending
    leaves.push_back({pb, pm});
    leaves.push_back({pm, pe});
    return;
  }
  uint64_t nl = (uint64_t)(pm - pb);
  if (nl == 0 || nl == n) { // no progress: a recursion in an application would not terminate; the tiling is still fine
    A.extra["split_no_progress"]++;
    leaves.push_back({pb, pm});
    leaves.push_back({pm, pe});
    return;
  }
  splitLeaves(A, v, b, m, nl, leaves, docOk, depth + 1);
  splitLeaves(A, v, m, e, n - nl, leaves, docOk, depth + 1);
}

template <typename It>
static void splitDivision(Acc& A, const View<It>& v, bool exhaustive, bool recursive, const char* tname) {
  // single split
  {
    It m = galois::split_range(v.b, v.e);
    ++A.calls;
    Tiling t(v.base, v.base + (pos_t)v.n, 2);
    pos_t pm = PosOf<It>::get(v, m);
    t.feed(0, v.base, pm);
    t.feed(1, pm, v.base + (pos_t)v.n);
    if (pm - v.base == (pos_t)((v.n + 1) / 2))
      A.extra["split_midpoint_as_documented"]++;
    A.finishDivision(t, v.n, exhaustive, "single", [&] {
      return J().kv("type", tname).kv("base", c13ref::pos_str(v.base)).kv("size", v.n).kv("mid", c13ref::pos_str(pm)).str();
    });
  }
  if (recursive && v.n >= 2) {
    std::vector<std::pair<pos_t, pos_t>> leaves;
    uint64_t docOk = 0;
    splitLeaves(A, v, v.b, v.e, v.n, leaves, docOk, 0);
    A.extra["split_midpoint_as_documented"] += docOk;
    Tiling t(v.base, v.base + (pos_t)v.n, leaves.size());
    for (size_t i = 0; i < leaves.size(); ++i)
      t.feed(i, leaves[i].first, leaves[i].second);
    A.finishDivision(t, v.n, false, "recursive", [&] {
      return J().kv("type", tname).kv("base", c13ref::pos_str(v.base)).kv("size", v.n).kv("leaves", leaves.size()).str();
    });
  }
}

static void splitExhaustive(Acc& A, Rng& rng, int kind, unsigned maxSize) {
  Containers C;
  for (unsigned size = 0; size <= maxSize; ++size)
    withView(kind, C, size, pickIterBase(rng, kind, size),
             [&](auto v) { splitDivision(A, v, true, true, ITER_NAMES[kind]); });
}

static void splitRandom(Acc& A, Rng& rng, int kind, unsigned n) {
  Containers C;
  for (unsigned i = 0; i < n; ++i) {
    uint64_t size;
    bool rec = true;
    if (kind < NCONT)
      size = logUniform(rng, kind >= 3 ? 3000 : 50000);
    else {
      // std::distance(b,e)+1 must not overflow the difference type
      uint64_t maxDist = kind == 5 ? 0x7ffffffffffffffeULL : 0xffffffffULL;
      if (rng.chance(1, 3)) {
        size = maxDist - rng.pick<uint64_t>({0, 1, 2, rng.below(1000)});
        rec  = false;
      } else if (rng.chance(1, 2)) {
        size = logUniform(rng, maxDist);
        rec  = false;
      } else
        size = logUniform(rng, 100000);
    }
    withView(kind, C, size, pickIterBase(rng, kind, size),
             [&](auto v) { splitDivision(A, v, false, rec, ITER_NAMES[kind]); });
  }
}

// ------------------------------------------------------------------ StandardRange on pool threads
// The range object is obtained exactly as do_all obtains it: galois::iterate(...)(args-tuple).
struct PieceRec {
  pos_t v[8]; // block_pair, local_pair, block_begin/end, local_begin/end
};
static const char* ACCESSORS[] = {"block_pair", "local_pair", "block_begin/end", "local_begin/end"};

template <typename RangeT, typename PosFn>
static void evalRangesOnThreads(Acc& A, std::vector<RangeT>& ranges, unsigned T, PosFn&& posOf,
                                std::vector<std::vector<PieceRec>>& out) {
  out.assign(ranges.size(), std::vector<PieceRec>(T));
  galois::setActiveThreads(T);
  galois::on_each([&](unsigned tid, unsigned numT) {
    for (size_t r = 0; r < ranges.size(); ++r) {
      const RangeT& R = ranges[r];
      PieceRec& p    = out[r][tid];
      auto bp        = R.block_pair();
      auto lp        = R.local_pair();
      p.v[0]         = posOf(r, bp.first);
      p.v[1]         = posOf(r, bp.second);
      p.v[2]         = posOf(r, lp.first);
      p.v[3]         = posOf(r, lp.second);
      p.v[4]         = posOf(r, R.block_begin());
      p.v[5]         = posOf(r, R.block_end());
      p.v[6]         = posOf(r, R.local_begin());
      p.v[7]         = posOf(r, R.local_end());
      if ((r & 0xff) == 0)
        progress();
    }
  });
  A.calls += (uint64_t)ranges.size() * T * 6;
}

static void judgeRanges(Acc& A, const std::vector<std::vector<PieceRec>>& out, unsigned T,
                        const std::vector<std::pair<pos_t, pos_t>>& expect, bool exhaustive,
                        const std::function<std::string(size_t)>& witness) {
  for (size_t r = 0; r < out.size(); ++r)
    for (int acc = 0; acc < 4; ++acc) {
      Tiling t(expect[r].first, expect[r].second, T);
      for (unsigned tid = 0; tid < T; ++tid)
        t.feed(tid, out[r][tid].v[2 * acc], out[r][tid].v[2 * acc + 1]);
      A.finishDivision(t, (uint64_t)(expect[r].second - expect[r].first), exhaustive,
                       ACCESSORS[acc], [&] { return witness(r); });
    }
}

static const char* SR_KINDS[] = {"iterate(uint32,uint32)", "iterate(size_t,size_t)", "iterate(std::vector&)",
                                 "iterate(std::list&)", "iterate(int*,int*)"};
constexpr int NSR = 5;

static void standardRange(Acc& A, Rng& rng, int kind, const std::vector<uint64_t>& sizes, unsigned Tlo, unsigned Thi,
                          bool exhaustive) {
  std::tuple<> noargs;
  std::vector<std::pair<pos_t, pos_t>> expect;
  std::vector<std::vector<PieceRec>> out;
  auto wit = [&](size_t r) {
    return J().kv("range", SR_KINDS[kind]).kv("begin", c13ref::pos_str(expect[r].first))
        .kv("end", c13ref::pos_str(expect[r].second)).str();
  };
  switch (kind) {
  case 0: {
    typedef decltype(galois::iterate(0u, 0u)(noargs)) R;
    std::vector<R> ranges;
    for (uint64_t n : sizes) {
      uint32_t b = exhaustive ? (uint32_t)rng.below(1000) : (uint32_t)rng.below(0xffffffffULL - n + 1);
      ranges.push_back(galois::iterate(b, (uint32_t)(b + n))(noargs));
      expect.push_back({(pos_t)b, (pos_t)b + (pos_t)n});
    }
    for (unsigned T = Tlo; T <= Thi; ++T) {
      evalRangesOnThreads(A, ranges, T, [](size_t, const boost::counting_iterator<uint32_t>& it) { return (pos_t)*it; }, out);
      judgeRanges(A, out, T, expect, exhaustive, wit);
    }
    break;
  }
  case 1: {
    typedef decltype(galois::iterate((size_t)0, (size_t)0)(noargs)) R;
    std::vector<R> ranges;
    for (uint64_t n : sizes) {
      size_t b = exhaustive ? (size_t)rng.below(1000) : (size_t)rng.below((1ULL << 62));
      ranges.push_back(galois::iterate(b, (size_t)(b + n))(noargs));
      expect.push_back({(pos_t)b, (pos_t)b + (pos_t)n});
    }
    for (unsigned T = Tlo; T <= Thi; ++T) {
      evalRangesOnThreads(A, ranges, T, [](size_t, const boost::counting_iterator<size_t>& it) { return (pos_t)*it; }, out);
      judgeRanges(A, out, T, expect, exhaustive, wit);
    }
    break;
  }
  case 2: {
    std::vector<std::vector<int>> conts(sizes.size());
    typedef decltype(galois::iterate(conts[0])(noargs)) R;
    std::vector<R> ranges;
    for (size_t i = 0; i < sizes.size(); ++i) {
      conts[i].resize(sizes[i]);
      for (size_t k = 0; k < sizes[i]; ++k) conts[i][k] = (int)k;
      ranges.push_back(galois::iterate(conts[i])(noargs));
      expect.push_back({0, (pos_t)sizes[i]});
    }
    for (unsigned T = Tlo; T <= Thi; ++T) {
      evalRangesOnThreads(A, ranges, T,
                          [&](size_t r, const std::vector<int>::iterator& it) { return (pos_t)(it - conts[r].begin()); }, out);
      judgeRanges(A, out, T, expect, exhaustive, wit);
    }
    break;
  }
  case 3: {
    std::vector<std::list<int>> conts(sizes.size());
    typedef decltype(galois::iterate(conts[0])(noargs)) R;
    std::vector<R> ranges;
    for (size_t i = 0; i < sizes.size(); ++i) {
      for (size_t k = 0; k < sizes[i]; ++k) conts[i].push_back((int)k);
      ranges.push_back(galois::iterate(conts[i])(noargs));
      expect.push_back({0, (pos_t)sizes[i]});
    }
    for (unsigned T = Tlo; T <= Thi; ++T) {
      evalRangesOnThreads(A, ranges, T,
                          [&](size_t r, const std::list<int>::iterator& it) {
                            return it == conts[r].end() ? (pos_t)conts[r].size() : (pos_t)*it;
                          },
                          out);
      judgeRanges(A, out, T, expect, exhaustive, wit);
    }
    break;
  }
  default: {
    std::vector<std::vector<int>> conts(sizes.size());
    typedef decltype(galois::iterate((int*)nullptr, (int*)nullptr)(noargs)) R;
    std::vector<R> ranges;
    for (size_t i = 0; i < sizes.size(); ++i) {
      conts[i].resize(sizes[i] + 1);
      int* p = conts[i].data();
      ranges.push_back(galois::iterate(p, p + sizes[i])(noargs));
      expect.push_back({0, (pos_t)sizes[i]});
    }
    for (unsigned T = Tlo; T <= Thi; ++T) {
      evalRangesOnThreads(A, ranges, T, [&](size_t r, int* const& it) { return (pos_t)(it - conts[r].data()); }, out);
      judgeRanges(A, out, T, expect, exhaustive, wit);
    }
    break;
  }
  }
}

// ------------------------------------------------------------------ SpecificRange on pool threads
// Domain (Range.h comments + the producers in DistributedGraph.h / NewGeneric.h):
//  full     thread_beginnings tile [0,N), range executed is [0,N)
//  clipped  thread_beginnings tile [0,N), range executed is a sub-range [gb,ge) of it
//  exactsub thread_beginnings tile [gb,ge) with gb>0, range executed is [gb,ge)  (DistGraph master nodes)
struct SRConfig {
  std::vector<uint32_t> tb; // T+1 entries, monotone
  size_t gb, ge;
  const char* mode;
};
typedef galois::runtime::SpecificRange<boost::counting_iterator<size_t>> SpecRange;

static void specificRangeBatch(Acc& A, std::vector<SRConfig>& cfgs, unsigned T, bool exhaustive) {
  if (cfgs.empty())
    return;
  std::vector<SpecRange> ranges;
  std::vector<std::pair<pos_t, pos_t>> expect;
  for (auto& c : cfgs) {
    ranges.push_back(galois::runtime::makeSpecificRange(boost::counting_iterator<size_t>(c.gb),
                                                        boost::counting_iterator<size_t>(c.ge), c.tb.data()));
    expect.push_back({(pos_t)c.gb, (pos_t)c.ge});
  }
  std::vector<std::vector<PieceRec>> out;
  evalRangesOnThreads(A, ranges, T, [](size_t, const boost::counting_iterator<size_t>& it) { return (pos_t)*it; }, out);
  // judge per mode so that the class in the key names the mode
  for (size_t r = 0; r < cfgs.size(); ++r)
    for (int acc = 0; acc < 4; ++acc) {
      Tiling t(expect[r].first, expect[r].second, T);
      for (unsigned tid = 0; tid < T; ++tid)
        t.feed(tid, out[r][tid].v[2 * acc], out[r][tid].v[2 * acc + 1]);
      A.finishDivision(t, cfgs[r].ge - cfgs[r].gb, exhaustive, std::string(cfgs[r].mode) + "," + ACCESSORS[acc], [&] {
        return J().kv("mode", cfgs[r].mode).raw("thread_beginnings", jarr(cfgs[r].tb)).kv("global_begin", cfgs[r].gb)
            .kv("global_end", cfgs[r].ge).kv("threads", T).str();
      });
    }
}

// all monotone vectors lo = t0 <= t1 <= ... <= tT = hi
static void allMonotone(unsigned T, uint32_t lo, uint32_t hi, std::vector<std::vector<uint32_t>>& out) {
  std::vector<uint32_t> cur(T + 1, lo);
  cur[T] = hi;
  std::function<void(unsigned)> rec = [&](unsigned i) {
    if (i == T) {
      out.push_back(cur);
      return;
    }
    for (uint32_t v = cur[i - 1]; v <= hi; ++v) {
      cur[i] = v;
      rec(i + 1);
    }
  };
  if (T == 0)
    return;
  rec(1);
}

static void specificExhaustive(Acc& A, unsigned maxN, unsigned maxT) {
  for (unsigned T = 1; T <= maxT; ++T) {
    std::vector<SRConfig> cfgs;
    for (unsigned N = 0; N <= maxN; ++N) {
      std::vector<std::vector<uint32_t>> tbs;
      allMonotone(T, 0, N, tbs);
      for (auto& tb : tbs)
        for (size_t gb = 0; gb <= N; ++gb)
          for (size_t ge = gb; ge <= N; ++ge)
            cfgs.push_back({tb, gb, ge, (gb == 0 && ge == N) ? "full" : "clipped"});
      // exact tilings of a sub-range that does not start at 0
      for (uint32_t gb = 1; gb <= 3; ++gb) {
        tbs.clear();
        allMonotone(T, gb, gb + N, tbs);
        for (auto& tb : tbs)
          cfgs.push_back({tb, gb, gb + N, "exactsub"});
      }
    }
    specificRangeBatch(A, cfgs, T, true);
  }
}

static std::vector<uint32_t> randomMonotone(Rng& rng, unsigned T, uint32_t lo, uint32_t hi) {
  std::vector<uint32_t> tb(T + 1);
  tb[0] = lo;
  tb[T] = hi;
  unsigned style = (unsigned)rng.below(4);
  for (unsigned i = 1; i < T; ++i) {
    switch (style) {
    case 0: tb[i] = lo + (uint32_t)rng.below((uint64_t)hi - lo + 1); break;
    case 1: tb[i] = rng.chance(1, 2) ? lo : hi; break;                                   // everything on few threads
    case 2: tb[i] = lo + (uint32_t)(((uint64_t)hi - lo) * i / T); break;                 // even
    default: tb[i] = lo + (uint32_t)rng.below(std::min<uint64_t>((uint64_t)hi - lo, 8) + 1); break; // clustered near lo
    }
  }
  std::sort(tb.begin() + 1, tb.begin() + T);
  return tb;
}

static void specificRandom(Acc& A, Rng& rng, unsigned maxT, unsigned perT) {
  for (unsigned T = 1; T <= maxT; ++T) {
    std::vector<SRConfig> cfgs;
    for (unsigned i = 0; i < perT; ++i) {
      uint32_t N = rng.chance(1, 3) ? (uint32_t)rng.below(40) : (uint32_t)logUniform(rng, 0xfffffff0ULL);
      switch (rng.below(3)) {
      case 0: cfgs.push_back({randomMonotone(rng, T, 0, N), 0, N, "full"}); break;
      case 1: {
        size_t gb = rng.below((uint64_t)N + 1), ge = gb + rng.below((uint64_t)N - gb + 1);
        auto tb = randomMonotone(rng, T, 0, N);
        if (rng.chance(1, 3) && T > 1) { // sub-range aligned with thread boundaries
          gb = tb[rng.below(T)];
          ge = std::max<size_t>(gb, tb[1 + rng.below(T)]);
        }
        cfgs.push_back({tb, gb, ge, (gb == 0 && ge == N) ? "full" : "clipped"});
        break;
      }
      default: {
        uint32_t gb = 1 + (uint32_t)rng.below(std::min<uint64_t>(0xfffffff0ULL - N, 1 << 20) + 1);
        cfgs.push_back({randomMonotone(rng, T, gb, gb + N), gb, (size_t)gb + N, "exactsub"});
        break;
      }
      }
    }
    specificRangeBatch(A, cfgs, T, false);
  }
}

// ------------------------------------------------------------------ plan
enum Comp { BR_INT, BR_ITER, SPLIT, STD_RANGE, SPEC_RANGE };
enum Fam { EXH, RAND, EXTREME, EXTREME_HUGE, MOREPARTS };
struct Entry {
  Comp comp;
  Fam fam;
  int type;
  int slice;
};

int main(int argc, char** argv) {
  Harness H("C13", argc, argv);
  galois::SharedMemSys G;
  unsigned maxT = galois::substrate::getThreadPool().getMaxThreads();
  maxT          = std::min<unsigned>(maxT, (unsigned)H.paramInt("maxthreads", 64));

  const unsigned S      = H.thorough ? 400 : 200; // exhaustive sizes 0..S
  const unsigned P      = H.thorough ? 64 : 40;   // exhaustive part counts 1..P
  const unsigned NSLICE = 4;
  const unsigned scale  = H.thorough ? 4 : 1;
  FULL_ENUM             = (unsigned)H.paramInt("fullenum", H.thorough ? 20000 : 6000);

  std::vector<Entry> exh, rnd;
  for (int t = 0; t < NINT; ++t)
    for (unsigned s = 0; s < NSLICE; ++s) exh.push_back({BR_INT, EXH, t, (int)s});
  for (int t = 0; t < NITER; ++t)
    for (unsigned s = 0; s < NSLICE; ++s) exh.push_back({BR_ITER, EXH, t, (int)s});
  for (int t = 0; t < NITER; ++t) exh.push_back({SPLIT, EXH, t, 0});
  for (int t = 0; t < NSR; ++t) exh.push_back({STD_RANGE, EXH, t, 0});
  exh.push_back({SPEC_RANGE, EXH, 0, 0});

  for (int t = 0; t < NINT; ++t) {
    rnd.push_back({BR_INT, RAND, t, 0});
    rnd.push_back({BR_INT, EXTREME, t, 0});
    rnd.push_back({BR_INT, EXTREME_HUGE, t, 0});
    rnd.push_back({BR_INT, MOREPARTS, t, 0});
  }
  for (int t = 0; t < NITER; ++t) rnd.push_back({BR_ITER, RAND, t, 0});
  for (int t = NCONT; t < NITER; ++t) rnd.push_back({BR_ITER, EXTREME, t, 0});
  for (int t = 0; t < NITER; ++t) rnd.push_back({SPLIT, RAND, t, 0});
  for (int t = 0; t < NSR; ++t) rnd.push_back({STD_RANGE, RAND, t, 0});
  rnd.push_back({SPEC_RANGE, RAND, 0, 0});
  rnd.push_back({SPEC_RANGE, RAND, 0, 1});

  if (H.paramInt("plan", 0)) { // print the plan size for the spec author
    printf("exhaustive=%zu random=%zu\n", exh.size(), rnd.size());
    return 0;
  }

  for (long k = H.firstCase(); k < H.endCase(); ++k) {
    Rng rng(mix(H.caseSeed(k), (uint64_t)H.paramInt("salt", 0))); // salt: other random inputs for the same plan
    Entry en = (size_t)k < exh.size() ? exh[k] : rnd[(k - exh.size()) % rnd.size()];
    std::string comp, fam, sigx;
    unsigned pLo = 1 + en.slice * P / NSLICE, pHi = (en.slice + 1) * P / NSLICE;
    switch (en.comp) {
    case BR_INT: comp = std::string("block_range<") + INT_NAMES[en.type] + ">"; break;
    case BR_ITER: comp = std::string("block_range<") + ITER_NAMES[en.type] + ">"; break;
    case SPLIT: comp = std::string("split_range<") + ITER_NAMES[en.type] + ">"; break;
    case STD_RANGE: comp = std::string("StandardRange:") + SR_KINDS[en.type]; break;
    case SPEC_RANGE: comp = "SpecificRange"; break;
    }
    switch (en.fam) {
    case EXH: fam = "exhaustive"; break;
    case RAND: fam = "random"; break;
    case EXTREME: fam = "overflow-threshold"; break;
    case EXTREME_HUGE: fam = "overflow-threshold-huge-num"; break;
    case MOREPARTS: fam = "more-parts-than-elements"; break;
    }
    J params;
    params.kv("component", comp).kv("family", fam);
    if (en.fam == EXH && (en.comp == BR_INT || en.comp == BR_ITER))
      params.kv("sizes", std::string("0..") + std::to_string(S)).kv("parts", std::to_string(pLo) + ".." + std::to_string(pHi));
    if (en.comp == STD_RANGE || en.comp == SPEC_RANGE)
      params.kv("maxThreads", maxT);
    H.hangKey = "C13:" + comp + ":hang";
    H.begin(k, params.str());
    Acc A(H, comp);

    switch (en.comp) {
    case BR_INT:
      withInt(en.type, [&](auto tag) {
        typedef decltype(tag) T;
        switch (en.fam) {
        case EXH: intExhaustive<T>(A, rng, S, pLo, pHi); break;
        case RAND: intRandomLarge<T>(A, rng, 60 * scale); break;
        case EXTREME: intExtremes<T>(A, rng, false, 80 * scale); break;
        case EXTREME_HUGE: intExtremes<T>(A, rng, true, 200 * scale); break;
        case MOREPARTS: intMoreParts<T>(A, rng, 60 * scale); break;
        }
      });
      break;
    case BR_ITER:
      if (en.fam == EXH)
        iterExhaustive(A, rng, en.type, S, pLo, pHi);
      else
        iterRandom(A, rng, en.type, (en.type >= 3 && en.type < NCONT ? 25 : 50) * scale, en.fam == EXTREME);
      break;
    case SPLIT:
      if (en.fam == EXH)
        splitExhaustive(A, rng, en.type, H.thorough ? 1200 : 400);
      else
        splitRandom(A, rng, en.type, 40 * scale);
      break;
    case STD_RANGE: {
      std::vector<uint64_t> sizes;
      if (en.fam == EXH) {
        for (unsigned s = 0; s <= S; ++s) sizes.push_back(s);
        standardRange(A, rng, en.type, sizes, 1, maxT, true);
      } else {
        uint64_t cap = en.type == 0 ? 0xffffffffULL : en.type == 1 ? (1ULL << 61) : en.type == 3 ? 20000 : 300000;
        for (unsigned i = 0; i < 40 * scale; ++i)
          sizes.push_back(rng.chance(1, 8) ? cap - rng.below(3) : logUniform(rng, cap));
        standardRange(A, rng, en.type, sizes, 1, maxT, false);
      }
      break;
    }
    case SPEC_RANGE:
      if (en.fam == EXH)
        specificExhaustive(A, H.thorough ? 8 : 6, std::min(maxT, H.thorough ? 5u : 4u));
      else
        specificRandom(A, rng, maxT, 300 * scale);
      break;
    }
    if (A.exhaustive_triples) { // per-routine share of the exhaustively enumerated sub-spaces
      static const char* SHORT[] = {"block_range_int", "block_range_iter", "split_range", "StandardRange", "SpecificRange"};
      A.extra[std::string("exhaustive_triples.") + SHORT[en.comp]] = A.exhaustive_triples;
    }
    std::string sig = comp + "|" + fam + "|s" + std::to_string(en.slice) + "|mp" + (A.more_parts_than_elems ? "1" : "0") +
                      "|z" + (A.zero_size_inputs ? "1" : "0") + "|smp" + (A.sampled_divisions ? "1" : "0");
    H.end(k, sig, A.nontrivial(), A.obs());
  }
  return 0;
}
