#include "galois/Galois.h"
#include <cstdio>
int main() {
  galois::SharedMemSys G;
  auto& tp = galois::substrate::getThreadPool();
  printf("threads=%u sockets=%u\n", tp.getMaxThreads(), tp.getMaxSockets());
  galois::setActiveThreads(tp.getMaxThreads());
  std::atomic<int> c{0};
  galois::on_each([&](unsigned tid, unsigned n) { c += 1; printf("tid %u socket %u leader %u\n", tid, tp.getSocket(tid), tp.getLeader(tid)); });
  printf("c=%d\n", c.load());
  return 0;
}
