// C15 — shared declarations of the harness TUs (c15_main.cpp, c15_reduce.cpp,
// c15_bag.cpp, c15_bits.cpp, c15_sets.cpp).
#pragma once

#include "verif.h"

#include <algorithm>
#include <functional>
#include <map>
#include <string>
#include <vector>

namespace c15 {

using verif::J;
using verif::Rng;

// One case = one component x one generated update assignment.
struct Case {
  verif::Harness& H;
  long k;
  Rng rng;
  unsigned maxT;  // pool size (virtual topology)
  unsigned nsock; // sockets of the (virtual) topology
  bool thorough;

  std::string component; // params.component
  std::string sig;       // behaviour class (component|variant|type|plan...)
  bool begun = false;

  // measured
  std::map<std::string, uint64_t> obs;
  unsigned workersMax   = 0;     // max #threads that performed >=1 op in one parallel phase
  uint64_t seqChecks    = 0;     // oracle comparisons of sequentially exhaustive cases
  bool seqExhaustive    = false; // case class without parallel phase by design
  long nviol            = 0;
  bool skippedNotOnce   = false; // a loop did not run every index exactly once (C03's business)

  Case(verif::Harness& h, long k_, unsigned maxT_, unsigned nsock_)
      : H(h), k(k_), rng(h.caseSeed(k_)), maxT(maxT_), nsock(nsock_), thorough(h.thorough) {}

  void begin(const std::string& comp, J params) {
    component = comp;
    J p;
    p.kv("component", comp);
    // splice the caller's object after "component"
    std::string inner = params.str();
    std::string s     = p.s;
    if (inner.size() > 2)
      s += "," + inner.substr(1, inner.size() - 2);
    s += ",\"maxT\":" + std::to_string(maxT) + ",\"sockets\":" + std::to_string(nsock) + "}";
    H.hangKey = "C15:" + comp + ":hang";
    H.begin(k, s);
    begun = true;
  }
  void viol(const std::string& kind, const J& detail) {
    ++nviol;
    H.violation("C15:" + component + ":" + kind, detail.str());
  }
  void add(const char* key, uint64_t n) { obs[key] += n; }
};

// ---------------------------------------------------------------- distribution of n operations over threads
struct Plan {
  unsigned threads = 1; // galois::setActiveThreads for the phase
  int mode         = 0; // 0 on_each with explicit assignment; 1 do_all steal chunk 1; 2 do_all steal chunk 16;
                        // 3 do_all no steal chunk 64; 4 for_each (no conflicts, no pushes)
  int pattern      = 0; // mode 0: 0 one thread, 1 round robin, 2 uniform random, 3 skewed, 4 blocks,
                        // 5 odd threads only, 6 last thread only
  unsigned noise   = 0; // per-256 chance of a delay/yield before an operation
  unsigned pointProb = 0;
  uint64_t nseed   = 1;
  std::string name() const {
    static const char* M[] = {"on_each", "do_all-steal-c1", "do_all-steal-c16", "do_all-c64", "for_each"};
    static const char* P[] = {"one", "rr", "rand", "skew", "blocks", "odd", "last"};
    std::string s = M[mode];
    if (mode == 0)
      s += std::string("/") + P[pattern];
    return s;
  }
};
// forcedThreads==0: choose
Plan makePlan(Case& c, unsigned forcedThreads = 0, bool allowForEach = true);

struct ExecResult {
  unsigned workers = 0;     // threads that executed >= 1 operation
  bool exactlyOnce = true;  // every index executed exactly once
  std::vector<uint16_t> by; // by[i] = pool thread id that executed i
};
// Runs apply(i, tid) for every i in [0,n) on the pool according to the plan.
ExecResult execPlan(Case& c, const Plan& p, size_t n, const std::function<void(uint32_t, unsigned)>& apply);

unsigned pickThreads(Case& c);

// ---------------------------------------------------------------- component entry points
void run_reducible(Case& c, int which);    // c15_reduce.cpp
constexpr int N_REDUCIBLE = 12;
void run_bag(Case& c, int which);          // c15_bag.cpp (InsertBag)
constexpr int N_BAG = 4;
void run_perthread(Case& c, int which);    // c15_bag.cpp (PerThread*)
constexpr int N_PERTHREAD = 8;
void run_bits(Case& c, int which);         // c15_bits.cpp (DynamicBitSet)
constexpr int N_BITS = 5;
void run_atomics(Case& c, int which);      // c15_bits.cpp (AtomicHelpers)
constexpr int N_ATOMICS = 3;
void run_sets(Case& c, int which);         // c15_sets.cpp (ThreadSafeOrderedSet/MinHeap, UnionFind)
constexpr int N_SETS = 4;

template <typename T>
inline std::string show(const T& v) {
  if constexpr (std::is_floating_point_v<T>) {
    char b[64];
    snprintf(b, sizeof b, "%.17g", (double)v);
    return b;
  } else if constexpr (std::is_same_v<T, bool>) {
    return v ? "true" : "false";
  } else {
    return std::to_string(v);
  }
}

} // namespace c15
