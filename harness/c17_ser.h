// C17 part A — serialisation round trips (libdist/include/galois/runtime/Serialize.h).
// Shared machinery: value generators / comparators per type (Tr<T>), type-erased
// fields, the registry of concrete types grouped by family (component).
#pragma once
#include "verif.h"

#include "galois/ArrayWrapper.h"
#include "galois/Galois.h"
#include "galois/gstl.h"
#include "galois/runtime/Serialize.h"

#include <array>
#include <cmath>
#include <deque>
#include <limits>
#include <memory>
#include <tuple>
#include <typeinfo>

namespace c17 {
using namespace verif;
namespace gr = galois::runtime;

// ---------------------------------------------------------------- generation context
struct Ctx {
  Rng& rng;
  unsigned budget;        // largest container size at this nesting level
  bool forTarget = false; // generating junk into a deserialisation target
  bool dirtyStrings = false; // targets may hold non-empty strings (component "string(reused target)" only)
  bool nulStrings   = false; // strings may contain '\0' (component "string(embedded NUL)" only)
  bool allowEmptyPod = false; // PODResizeableArray / DynamicBitSet may be empty (own components only)
  size_t* pool       = nullptr; // elements still available to the value being generated (bounds nested containers)
  Ctx child() const {
    Ctx c    = *this;
    c.budget = std::max(3u, budget / 6);
    return c;
  }
  // size of a container
  size_t size(bool allowZero = true) {
    unsigned k = (unsigned)rng.below(20);
    size_t n;
    if (k < 2)
      n = 0;
    else if (k < 4)
      n = 1;
    else if (k < 6)
      n = 2 + rng.below(2);
    else if (k < 12)
      n = rng.below(std::min(budget, 17u) + 1);
    else
      n = rng.below(budget + 1);
    if (pool) {
      n = std::min(n, *pool);
      *pool -= n;
    }
    if (!allowZero && n == 0)
      n = 1 + rng.below(3);
    return n;
  }
};

inline std::string trunc(std::string s, size_t n = 160) {
  if (s.size() > n) {
    s.resize(n);
    s += "...";
  }
  return s;
}

// ---------------------------------------------------------------- Tr<T>: make / eq / name / show
template <class T, class = void>
struct Tr;

template <class T>
struct Tr<T, std::enable_if_t<std::is_integral_v<T> && !std::is_same_v<T, bool>>> {
  static void make(Ctx& c, T& v) {
    switch (c.rng.below(7)) {
    case 0: v = 0; break;
    case 1: v = std::numeric_limits<T>::max(); break;
    case 2: v = std::numeric_limits<T>::min(); break;
    case 3: v = (T)1; break;
    case 4: v = (T)-1; break;
    default: v = (T)c.rng.next(); break;
    }
  }
  static bool eq(const T& a, const T& b) { return a == b; }
  static std::string name() {
    return std::string(std::is_signed_v<T> ? "i" : "u") + std::to_string(sizeof(T) * 8);
  }
  static std::string show(const T& v) { return std::to_string(v); }
};
template <>
struct Tr<bool> {
  static void make(Ctx& c, bool& v) { v = c.rng.below(2); }
  static bool eq(bool a, bool b) { return a == b; }
  static std::string name() { return "bool"; }
  static std::string show(bool v) { return v ? "true" : "false"; }
};
template <class T>
struct Tr<T, std::enable_if_t<std::is_floating_point_v<T>>> {
  static void make(Ctx& c, T& v) {
    switch (c.rng.below(9)) {
    case 0: v = 0; break;
    case 1: v = -T(0); break;
    case 2: v = std::numeric_limits<T>::infinity(); break;
    case 3: v = std::numeric_limits<T>::quiet_NaN(); break;
    case 4: v = std::numeric_limits<T>::denorm_min(); break;
    case 5: v = std::numeric_limits<T>::lowest(); break;
    default: v = (T)((c.rng.unit() - 0.5) * std::pow(10.0, (double)c.rng.range(-6, 12))); break;
    }
  }
  static bool eq(const T& a, const T& b) { return memcmp(&a, &b, sizeof(T)) == 0; }
  static std::string name() { return sizeof(T) == 4 ? "f32" : "f64"; }
  static std::string show(const T& v) {
    char b[64];
    snprintf(b, sizeof b, "%.9g", (double)v);
    return b;
  }
};

enum class Color : uint16_t { Red = 1, Green = 500, Blue = 65535 };
template <>
struct Tr<Color> {
  static void make(Ctx& c, Color& v) { v = c.rng.pick({Color::Red, Color::Green, Color::Blue}); }
  static bool eq(Color a, Color b) { return a == b; }
  static std::string name() { return "enum16"; }
  static std::string show(Color v) { return std::to_string((unsigned)v); }
};

// trivially copyable struct with internal and tail padding
struct Pod {
  char c;
  double d;
  int32_t i;
  uint8_t t;
};
static_assert(std::is_trivially_copyable_v<Pod> && sizeof(Pod) == 24, "Pod layout");
template <>
struct Tr<Pod> {
  static void make(Ctx& c, Pod& v) {
    memset((void*)&v, (int)c.rng.below(256), sizeof v); // padding bytes differ between values
    Tr<char>::make(c, v.c);
    Tr<double>::make(c, v.d);
    Tr<int32_t>::make(c, v.i);
    Tr<uint8_t>::make(c, v.t);
  }
  static bool eq(const Pod& a, const Pod& b) {
    return a.c == b.c && Tr<double>::eq(a.d, b.d) && a.i == b.i && a.t == b.t;
  }
  static std::string name() { return "Pod24"; }
  static std::string show(const Pod& v) {
    return "{" + std::to_string((int)v.c) + "," + Tr<double>::show(v.d) + "," + std::to_string(v.i) + "," + std::to_string(v.t) + "}";
  }
};
// 3-byte trivially copyable struct (alignment 1, odd size)
struct Rgb {
  uint8_t r, g, b;
};
template <>
struct Tr<Rgb> {
  static void make(Ctx& c, Rgb& v) {
    v.r = (uint8_t)c.rng.next();
    v.g = (uint8_t)c.rng.next();
    v.b = (uint8_t)c.rng.next();
  }
  static bool eq(const Rgb& a, const Rgb& b) { return a.r == b.r && a.g == b.g && a.b == b.b; }
  static std::string name() { return "Rgb3"; }
  static std::string show(const Rgb& v) { return std::to_string(v.r * 65536 + v.g * 256 + v.b); }
};
// over-aligned trivially copyable struct
struct alignas(16) Wide {
  uint64_t a;
  uint32_t b;
};
template <>
struct Tr<Wide> {
  static void make(Ctx& c, Wide& v) {
    memset((void*)&v, (int)c.rng.below(256), sizeof v);
    v.a = c.rng.next();
    v.b = (uint32_t)c.rng.next();
  }
  static bool eq(const Wide& a, const Wide& b) { return a.a == b.a && a.b == b.b; }
  static std::string name() { return "Wide16"; }
  static std::string show(const Wide& v) { return "{" + std::to_string(v.a) + "," + std::to_string(v.b) + "}"; }
};

template <class A>
struct Tr<std::basic_string<char, std::char_traits<char>, A>> {
  using S = std::basic_string<char, std::char_traits<char>, A>;
  static void make(Ctx& c, S& v) {
    v.clear();
    if (c.forTarget && !c.dirtyStrings)
      return; // gDeserialize appends to a string: targets start empty outside the dedicated component
    size_t n = c.size();
    if (c.rng.chance(1, 10))
      n = 15 + c.rng.below(3); // around the small-string boundary
    for (size_t i = 0; i < n; ++i) {
      unsigned ch = 1 + (unsigned)c.rng.below(255);
      v.push_back((char)ch);
    }
    if (c.nulStrings && !c.forTarget) {
      size_t k = 1 + c.rng.below(3);
      for (size_t i = 0; i < k; ++i)
        v.insert(v.begin() + c.rng.below(v.size() + 1), '\0');
    }
  }
  static bool eq(const S& a, const S& b) { return a == b; }
  static std::string name() { return "string"; }
  static std::string show(const S& v) {
    std::string s = "\"";
    for (size_t i = 0; i < v.size() && i < 24; ++i) {
      char b[8];
      unsigned char ch = (unsigned char)v[i];
      if (ch >= 32 && ch < 127 && ch != '"' && ch != '\\')
        s += (char)ch;
      else {
        snprintf(b, sizeof b, "\\x%02x", ch);
        s += b;
      }
    }
    return s + "\"(len " + std::to_string(v.size()) + ")";
  }
};

template <class A, class B>
struct Tr<std::pair<A, B>> {
  using P = std::pair<A, B>;
  static void make(Ctx& c, P& v) {
    Tr<A>::make(c, v.first);
    Tr<B>::make(c, v.second);
  }
  static bool eq(const P& a, const P& b) { return Tr<A>::eq(a.first, b.first) && Tr<B>::eq(a.second, b.second); }
  static std::string name() { return "pair<" + Tr<A>::name() + "," + Tr<B>::name() + ">"; }
  static std::string show(const P& v) { return "(" + Tr<A>::show(v.first) + "," + Tr<B>::show(v.second) + ")"; }
};
template <class A, class B>
struct Tr<galois::Pair<A, B>> {
  using P = galois::Pair<A, B>;
  static void make(Ctx& c, P& v) {
    if constexpr (std::is_trivially_copyable_v<P>)
      memset((void*)&v, (int)c.rng.below(256), sizeof v);
    Tr<A>::make(c, v.first);
    Tr<B>::make(c, v.second);
  }
  static bool eq(const P& a, const P& b) { return Tr<A>::eq(a.first, b.first) && Tr<B>::eq(a.second, b.second); }
  static std::string name() { return "galois::Pair<" + Tr<A>::name() + "," + Tr<B>::name() + ">"; }
  static std::string show(const P& v) { return "(" + Tr<A>::show(v.first) + "," + Tr<B>::show(v.second) + ")"; }
};
template <class A, class B, class C>
struct Tr<galois::TupleOfThree<A, B, C>> {
  using P = galois::TupleOfThree<A, B, C>;
  static void make(Ctx& c, P& v) {
    if constexpr (std::is_trivially_copyable_v<P>)
      memset((void*)&v, (int)c.rng.below(256), sizeof v);
    Tr<A>::make(c, v.first);
    Tr<B>::make(c, v.second);
    Tr<C>::make(c, v.third);
  }
  static bool eq(const P& a, const P& b) {
    return Tr<A>::eq(a.first, b.first) && Tr<B>::eq(a.second, b.second) && Tr<C>::eq(a.third, b.third);
  }
  static std::string name() { return "galois::TupleOfThree<" + Tr<A>::name() + "," + Tr<B>::name() + "," + Tr<C>::name() + ">"; }
  static std::string show(const P& v) {
    return "(" + Tr<A>::show(v.first) + "," + Tr<B>::show(v.second) + "," + Tr<C>::show(v.third) + ")";
  }
};
template <class T>
struct Tr<galois::CopyableAtomic<T>> {
  using P = galois::CopyableAtomic<T>;
  static void make(Ctx& c, P& v) {
    T x;
    Tr<T>::make(c, x);
    v.store(x);
  }
  static bool eq(const P& a, const P& b) { return Tr<T>::eq(a.load(), b.load()); }
  static std::string name() { return "CopyableAtomic<" + Tr<T>::name() + ">"; }
  static std::string show(const P& v) { return Tr<T>::show(v.load()); }
};

template <class Seq>
struct SeqTr {
  using T = typename Seq::value_type;
  static bool eq(const Seq& a, const Seq& b) {
    if (a.size() != b.size())
      return false;
    auto ia = a.begin();
    auto ib = b.begin();
    for (; ia != a.end(); ++ia, ++ib)
      if (!Tr<T>::eq(*ia, *ib))
        return false;
    return true;
  }
  static std::string show(const Seq& v) {
    std::string s = "[n=" + std::to_string(v.size()) + ":";
    size_t i      = 0;
    for (auto it = v.begin(); it != v.end() && i < 4; ++it, ++i)
      s += (i ? "," : "") + Tr<T>::show(*it);
    return trunc(s + (v.size() > 4 ? ",..]" : "]"));
  }
};
template <class T, class A>
struct Tr<std::vector<T, A>> : SeqTr<std::vector<T, A>> {
  using V = std::vector<T, A>;
  static void make(Ctx& c, V& v) {
    size_t n = c.size();
    Ctx sub  = c.child();
    v.clear();
    if (c.rng.chance(1, 4))
      v.shrink_to_fit();
    for (size_t i = 0; i < n; ++i) {
      T x{};
      Tr<T>::make(sub, x);
      v.push_back(std::move(x));
    }
  }
  static std::string name() {
    return std::string(std::is_same_v<A, std::allocator<T>> ? "vector<" : "gstl::Vector<") + Tr<T>::name() + ">";
  }
};
template <class T, class A>
struct Tr<std::deque<T, A>> : SeqTr<std::deque<T, A>> {
  using V = std::deque<T, A>;
  static void make(Ctx& c, V& v) {
    size_t n = c.size();
    Ctx sub  = c.child();
    v.clear();
    for (size_t i = 0; i < n; ++i) {
      T x{};
      Tr<T>::make(sub, x);
      if (c.rng.chance(1, 4))
        v.push_front(std::move(x));
      else
        v.push_back(std::move(x));
    }
  }
  static std::string name() { return "std::deque<" + Tr<T>::name() + ">"; }
};
template <class T, unsigned CS>
struct Tr<galois::gdeque<T, CS>> : SeqTr<galois::gdeque<T, CS>> {
  using V = galois::gdeque<T, CS>;
  static void make(Ctx& c, V& v) {
    size_t n = c.size();
    Ctx sub  = c.child();
    v.clear();
    for (size_t i = 0; i < n; ++i) {
      T x{};
      Tr<T>::make(sub, x);
      v.push_back(std::move(x));
    }
  }
  static std::string name() { return "gdeque<" + Tr<T>::name() + "," + std::to_string(CS) + ">"; }
};
template <class T>
struct Tr<galois::PODResizeableArray<T>> : SeqTr<galois::PODResizeableArray<T>> {
  using V = galois::PODResizeableArray<T>;
  static void make(Ctx& c, V& v) {
    size_t n = c.size(c.allowEmptyPod || c.forTarget);
    if (c.allowEmptyPod && !c.forTarget)
      n = 0;
    Ctx sub = c.child();
    v.resize(n);
    for (size_t i = 0; i < n; ++i) {
      T x{};
      Tr<T>::make(sub, x);
      v[i] = x;
    }
  }
  static std::string name() { return "PODResizeableArray<" + Tr<T>::name() + ">"; }
};
template <class T, size_t N>
struct Tr<std::array<T, N>> : SeqTr<std::array<T, N>> {
  using V = std::array<T, N>;
  static void make(Ctx& c, V& v) {
    for (auto& x : v)
      Tr<T>::make(c, x);
  }
  static std::string name() { return "std::array<" + Tr<T>::name() + "," + std::to_string(N) + ">"; }
};
template <class T, size_t N>
struct Tr<galois::CopyableArray<T, N>> : SeqTr<galois::CopyableArray<T, N>> {
  using V = galois::CopyableArray<T, N>;
  static void make(Ctx& c, V& v) {
    for (auto& x : v)
      Tr<T>::make(c, x);
  }
  static std::string name() { return "CopyableArray<" + Tr<T>::name() + "," + std::to_string(N) + ">"; }
};
template <>
struct Tr<galois::DynamicBitSet> {
  using V = galois::DynamicBitSet;
  static void make(Ctx& c, V& v) {
    size_t words = c.size(c.allowEmptyPod || c.forTarget);
    size_t bits  = words ? (words - 1) * 64 + 1 + c.rng.below(64) : 0;
    if (c.allowEmptyPod && !c.forTarget)
      bits = 0;
    v.resize(bits);
    if (!bits)
      return;
    unsigned mode = (unsigned)c.rng.below(4);
    size_t nset   = mode == 0 ? 0 : mode == 1 ? bits : c.rng.below(bits + 1);
    if (mode == 1)
      for (size_t i = 0; i < bits; ++i)
        v.set(i);
    else
      for (size_t i = 0; i < nset; ++i)
        v.set(c.rng.below(bits));
    if (mode >= 2 && c.rng.chance(1, 2)) {
      v.set(0);
      v.set(bits - 1);
    }
  }
  static bool eq(const V& a, const V& b) {
    if (a.size() != b.size() || a.get_vec().size() != b.get_vec().size())
      return false;
    for (size_t i = 0; i < a.get_vec().size(); ++i)
      if (a.get_vec()[i].load() != b.get_vec()[i].load())
        return false;
    return true;
  }
  static std::string name() { return "DynamicBitSet"; }
  static std::string show(const V& v) {
    size_t pop = 0;
    for (size_t i = 0; i < v.get_vec().size(); ++i)
      pop += __builtin_popcountll(v.get_vec()[i].load());
    return "bits=" + std::to_string(v.size()) + ",set=" + std::to_string(pop);
  }
};

// a user type with the serialize trait (not memory copyable)
struct Ser {
  int32_t id = 0;
  std::string label;
  std::vector<uint16_t> data;
  using tt_has_serialize = int;
  void serialize(gr::SerializeBuffer& b) const { gr::gSerialize(b, id, label, data); }
  void deserialize(gr::DeSerializeBuffer& b) { gr::gDeserialize(b, id, label, data); }
};
template <>
struct Tr<Ser> {
  static void make(Ctx& c, Ser& v) {
    Tr<int32_t>::make(c, v.id);
    Tr<std::string>::make(c, v.label);
    Ctx sub = c.child();
    Tr<std::vector<uint16_t>>::make(sub, v.data);
  }
  static bool eq(const Ser& a, const Ser& b) { return a.id == b.id && a.label == b.label && a.data == b.data; }
  static std::string name() { return "Ser{i32,string,vector<u16>}"; }
  static std::string show(const Ser& v) {
    return "{" + std::to_string(v.id) + "," + Tr<std::string>::show(v.label) + "," + Tr<std::vector<uint16_t>>::show(v.data) + "}";
  }
};

template <class... Ts>
struct Tr<std::tuple<Ts...>> {
  using V = std::tuple<Ts...>;
  static void make(Ctx& c, V& v) {
    std::apply([&](auto&... xs) { (Tr<std::decay_t<decltype(xs)>>::make(c, xs), ...); }, v);
  }
  template <size_t... I>
  static bool eqI(const V& a, const V& b, std::index_sequence<I...>) {
    return (Tr<std::tuple_element_t<I, V>>::eq(std::get<I>(a), std::get<I>(b)) && ...);
  }
  static bool eq(const V& a, const V& b) { return eqI(a, b, std::index_sequence_for<Ts...>{}); }
  static std::string name() {
    std::string s = "tuple<";
    bool first    = true;
    ((s += (first ? "" : ",") + Tr<Ts>::name(), first = false), ...);
    return s + ">";
  }
  static std::string show(const V& v) {
    std::string s = "<";
    bool first    = true;
    std::apply([&](const auto&... xs) { ((s += (first ? "" : ",") + Tr<std::decay_t<decltype(xs)>>::show(xs), first = false), ...); }, v);
    return trunc(s + ">");
  }
};

// ---------------------------------------------------------------- how a top-level value is written / read
// default: the public variadic API
template <class T>
struct Io {
  static void ser(gr::SerializeBuffer& b, const T& v) { gr::gSerialize(b, v); }
  static void deser(gr::DeSerializeBuffer& b, T& w) { gr::gDeserialize(b, w); }
  static size_t sized(const T& v) { return gr::gSized(v); }
  static const char* how() { return "gSerialize/gDeserialize"; }
};
// std::deque: gSerialize(buf, deque) does not compile (Serialize.h:364 names the size overload gSerializeObj, so
// gSized has no overload for deques); the write overload itself exists and is exercised directly
template <class T, class A>
struct Io<std::deque<T, A>> {
  using V = std::deque<T, A>;
  static void ser(gr::SerializeBuffer& b, const V& v) { gr::internal::gSerializeObj(b, v); }
  static void deser(gr::DeSerializeBuffer& b, V& w) { gr::gDeserialize(b, w); }
  static size_t sized(const V&) { return ~size_t(0); }
  static const char* how() { return "internal::gSerializeObj/gDeserialize"; }
};
// std::tuple can only be read: it is written as the concatenation of its (flattened) elements
template <class T>
struct IsTuple : std::false_type {};
template <class... Ts>
struct IsTuple<std::tuple<Ts...>> : std::true_type {};
template <class T>
void serFlat(gr::SerializeBuffer& b, const T& v) {
  if constexpr (IsTuple<T>::value)
    std::apply([&](const auto&... xs) { (serFlat(b, xs), ...); }, v);
  else
    gr::gSerialize(b, v);
}
template <class... Ts>
struct Io<std::tuple<Ts...>> {
  using V = std::tuple<Ts...>;
  static void ser(gr::SerializeBuffer& b, const V& v) {
    if constexpr ((IsTuple<Ts>::value || ...))
      serFlat(b, v);
    else
      std::apply([&](const auto&... xs) { gr::gSerialize(b, xs...); }, v); // one variadic call
  }
  static void deser(gr::DeSerializeBuffer& b, V& w) { gr::gDeserialize(b, w); }
  static size_t sized(const V& v) {
    if constexpr ((IsTuple<Ts>::value || ...))
      return ~size_t(0);
    else
      return std::apply([&](const auto&... xs) { return gr::gSized(xs...); }, v);
  }
  static const char* how() { return "gSerialize(elements...)/gDeserialize(tuple)"; }
};

// ---------------------------------------------------------------- type-erased field
struct Field {
  virtual ~Field() {}
  virtual void gen(Ctx& c)                                      = 0;
  virtual void ser(gr::SerializeBuffer& b)                      = 0;
  virtual size_t sized()                                        = 0; // ~0 = not available
  virtual void freshTarget(Ctx* dirty)                          = 0; // new target, optionally pre-filled with another value
  virtual void deser(gr::DeSerializeBuffer& b)                  = 0;
  virtual bool equal()                                          = 0;
  virtual std::string name()                                    = 0;
  virtual std::string showValue()                               = 0;
  virtual std::string showGot()                                 = 0;
  virtual const char* how() { return "gSerialize/gDeserialize"; }
};

template <class T>
struct FieldT : Field {
  T v{};
  std::unique_ptr<T> w;
  void gen(Ctx& c) override { Tr<T>::make(c, v); }
  void ser(gr::SerializeBuffer& b) override { Io<T>::ser(b, v); }
  size_t sized() override { return Io<T>::sized(v); }
  void freshTarget(Ctx* dirty) override {
    w = std::make_unique<T>();
    if (dirty) {
      dirty->forTarget = true;
      Tr<T>::make(*dirty, *w);
      dirty->forTarget = false;
    }
  }
  void deser(gr::DeSerializeBuffer& b) override { Io<T>::deser(b, *w); }
  bool equal() override { return Tr<T>::eq(v, *w); }
  std::string name() override { return Tr<T>::name(); }
  std::string showValue() override { return trunc(Tr<T>::show(v)); }
  std::string showGot() override { return trunc(Tr<T>::show(*w)); }
  const char* how() override { return Io<T>::how(); }
};

template <class T>
struct IsPodArr : std::false_type {};
template <class T>
struct IsPodArr<galois::PODResizeableArray<T>> : std::true_type {};
// written as one container type, read as another with the same wire format (count + elements)
template <class From, class To>
struct CrossField : Field {
  From v{};
  std::unique_ptr<To> w;
  void gen(Ctx& c) override {
    Tr<From>::make(c, v);
    if constexpr (IsPodArr<To>::value && !IsPodArr<From>::value)
      if (v.empty() && !c.allowEmptyPod) { // empty arrays have a component of their own
        typename From::value_type x{};
        Tr<typename From::value_type>::make(c, x);
        v.push_back(x);
      }
  }
  void ser(gr::SerializeBuffer& b) override { Io<From>::ser(b, v); }
  size_t sized() override { return Io<From>::sized(v); }
  void freshTarget(Ctx* dirty) override {
    w = std::make_unique<To>();
    if (dirty) {
      dirty->forTarget = true;
      Tr<To>::make(*dirty, *w);
      dirty->forTarget = false;
    }
  }
  void deser(gr::DeSerializeBuffer& b) override { Io<To>::deser(b, *w); }
  bool equal() override {
    if (v.size() != w->size())
      return false;
    auto ia = v.begin();
    auto ib = w->begin();
    for (; ia != v.end(); ++ia, ++ib)
      if (!Tr<typename From::value_type>::eq(*ia, *ib))
        return false;
    return true;
  }
  std::string name() override { return Tr<From>::name() + "->" + Tr<To>::name(); }
  std::string showValue() override { return trunc(Tr<From>::show(v)); }
  std::string showGot() override { return trunc(Tr<To>::show(*w)); }
};

// gSerializeLazySeq + gSerializeLazy write what a vector<T> reader expects
template <class T>
struct LazyField : Field {
  std::vector<T> v;
  std::unique_ptr<std::vector<T>> w;
  uint64_t order = 0;
  void gen(Ctx& c) override {
    Tr<std::vector<T>>::make(c, v);
    order = c.rng.next();
  }
  void ser(gr::SerializeBuffer& b) override {
    auto r = gr::gSerializeLazySeq(b, (unsigned)v.size(), (std::vector<T>*)nullptr);
    // fill the reserved slots in a scrambled order
    size_t n = v.size();
    std::vector<unsigned> idx(n);
    for (size_t i = 0; i < n; ++i)
      idx[i] = (unsigned)i;
    Rng r2(order);
    for (size_t i = n; i > 1; --i)
      std::swap(idx[i - 1], idx[r2.below(i)]);
    for (unsigned i : idx) {
      T tmp = v[i];
      gr::gSerializeLazy(b, r, i, std::move(tmp));
    }
  }
  size_t sized() override { return gr::gSized(v); }
  void freshTarget(Ctx* dirty) override {
    w = std::make_unique<std::vector<T>>();
    if (dirty) {
      dirty->forTarget = true;
      Tr<std::vector<T>>::make(*dirty, *w);
      dirty->forTarget = false;
    }
  }
  void deser(gr::DeSerializeBuffer& b) override { gr::gDeserialize(b, *w); }
  bool equal() override { return Tr<std::vector<T>>::eq(v, *w); }
  std::string name() override { return "LazySeq<" + Tr<T>::name() + ">->vector"; }
  std::string showValue() override { return trunc(Tr<std::vector<T>>::show(v)); }
  std::string showGot() override { return trunc(Tr<std::vector<T>>::show(*w)); }
  const char* how() override { return "gSerializeLazySeq+gSerializeLazy/gDeserialize"; }
};

// ---------------------------------------------------------------- registry
using Factory = std::function<std::unique_ptr<Field>()>;
struct Registry {
  std::map<std::string, std::vector<Factory>> fam;
  template <class T>
  void add(const char* family) {
    fam[family].push_back([] { return std::unique_ptr<Field>(new FieldT<T>()); });
  }
  template <class From, class To>
  void addCross(const char* family) {
    fam[family].push_back([] { return std::unique_ptr<Field>(new CrossField<From, To>()); });
  }
  template <class T>
  void addLazy(const char* family) {
    fam[family].push_back([] { return std::unique_ptr<Field>(new LazyField<T>()); });
  }
};
void registerTypes1(Registry&);
void registerTypes2(Registry&);
void registerTypes3(Registry&);

} // namespace c17
