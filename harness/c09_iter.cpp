// C09: the per-iteration allocator inside a real galois::for_each with
// galois::per_iter_alloc(): blocks obtained through ctx.getPerIterAlloc() (and
// std::vector on it, as the applications do) must be disjoint from every other
// live block - including those of iterations running on other threads - and
// must stay intact until the iteration commits or aborts.
//
// Aborts are longjmps out of acquire()/ctx.abort(), so (DESIGN 3.3) the shadow
// state never outlives an attempt: right before every call that can abort, the
// attempt's blocks are canary-checked and erased from the shadow map, and
// re-inserted when the call returned normally.
#include "c09_common.h"

#include "galois/Galois.h"
#include "galois/runtime/Context.h"
#include "galois/worklists/Chunk.h"

using namespace c09;

namespace {

struct Node : public galois::runtime::Lockable {
  uint64_t pad[7];
};

struct alignas(128) TL {
  std::vector<Blk> mine;
  uint64_t blocks = 0, fallbacks = 0, commits = 0, attempts = 0, voluntary = 0, vectorBlocks = 0, acquires = 0, reinserts = 0;
};

struct IterWork {
  CaseCtx& c;
  std::vector<TL>& tl;
  std::vector<Node>& nodes;
  std::vector<std::atomic<uint32_t>>& attempt;
  uint64_t seed;
  unsigned N, nthreads, lockSpan, bigPct, delayPct;
  bool conflicts;

  // temporary: out of the shadow map while a call that may longjmp is in progress (ids and canaries are kept)
  void retireAll(TL& t, const char* when) {
    for (auto& b : t.mine) {
      if (!b.ok())
        continue;
      checkCanary(c, b, when);
      if (!g_shadow.erase(b.p, b.len, b.id)) {
        fprintf(stderr, "c09 harness error: per-iteration block not in shadow map\n");
        _exit(2);
      }
    }
  }
  void retireFinal(TL& t) {
    for (auto& b : t.mine)
      beforeFree(c, b, false); // canary check "at-free" + erase
  }
  void reinsertAll(TL& t, int tid) {
    for (auto& b : t.mine) {
      if (!b.ok())
        continue;
      vref::ShadowEntry other;
      if (!g_shadow.insert(b.p, b.len, b.id, (uint32_t)(tid + 1), &other)) {
        c.report(c.key("overlap-live"),
                 J().kv("block", hexp(b.p)).kv("len", b.len).kv("thread", tid).kv("what", "block of an iteration still in flight")
                     .kv("live_block", hexp((void*)other.lo)).kv("live_len", (uint64_t)(other.hi - other.lo))
                     .kv("live_allocated_by_thread", (int)other.tag - 1).str());
        b.id = 0;
      }
      ++t.reinserts;
    }
  }

  template <typename Ctx>
  void operator()(unsigned item, Ctx& ctx) {
    unsigned tid = galois::substrate::ThreadPool::getTID();
    TL& t        = tl[tid];
    t.mine.clear(); // nothing can be left over (see file comment); belt and braces
    uint32_t att = attempt[item].fetch_add(1, std::memory_order_relaxed);
    ++t.attempts;
    Rng r(mix(seed, ((uint64_t)item << 8) + std::min<uint32_t>(att, 255)));
    auto& alloc = ctx.getPerIterAlloc();

    auto allocSome = [&](unsigned n) {
      for (unsigned i = 0; i < n; ++i) {
        size_t sz;
        unsigned x = (unsigned)r.below(100);
        if (x < bigPct)
          sz = PAGE2M - 24 + r.below(48); // around the malloc fallback threshold
        else if (x < 12)
          sz = 1 + r.below(70000);
        else
          sz = boundarySize(r, 4200, 12);
        bool fb = 8 + ((sz + 7) & ~(size_t)7) > PAGE2M;
        char* p = alloc.allocate(sz);
        ++t.blocks;
        if (fb)
          ++t.fallbacks;
        Blk b = onAlloc(c, p, sz, 8, 0, (int)tid, fb ? "PerIterAllocTy::allocate (malloc fallback)" : "PerIterAllocTy::allocate", 0, fb);
        if (b.ok())
          t.mine.push_back(b);
      }
    };
    // 1: allocate before the neighbourhood is known (as aig-rewriting does)
    allocSome((unsigned)r.below(4));
    // 2: acquire locks; any of these may abort the iteration
    if (conflicts) {
      unsigned nl = (unsigned)r.below(4);
      for (unsigned i = 0; i < nl; ++i) {
        unsigned idx = (unsigned)((item * 7 + r.below(lockSpan)) % nodes.size());
        retireAll(t, "before-acquire");
        ++t.acquires;
        galois::runtime::acquire(&nodes[idx], galois::MethodFlag::WRITE); // may longjmp
        reinsertAll(t, (int)tid);
      }
    }
    // 3: more blocks, and an STL container on the allocator
    allocSome(1 + (unsigned)r.below(5));
    if (r.below(3) == 0) {
      using A = galois::PerIterAllocTy::rebind<uint64_t>::other;
      std::vector<uint64_t, A> v{A(alloc)};
      unsigned n = 1 + (unsigned)r.below(400);
      for (unsigned i = 0; i < n; ++i)
        v.push_back(item * 1000003ULL + i);
      bool good = true;
      for (unsigned i = 0; i < n; ++i)
        good &= v[i] == item * 1000003ULL + i;
      if (!good)
        c.report(c.key("contents-corrupt"), J().kv("what", "std::vector on PerIterAllocTy lost its contents").str());
      // its current buffer is one more live block of this iteration (registered without a canary: it holds data)
      vref::ShadowEntry other;
      uint64_t id = g_nextBlockId.fetch_add(1, std::memory_order_relaxed);
      ++t.vectorBlocks;
      if (!g_shadow.insert(v.data(), v.capacity() * 8, id, tid + 1, &other))
        c.report(c.key("overlap-live"),
                 J().kv("block", hexp(v.data())).kv("len", (uint64_t)v.capacity() * 8).kv("what", "vector buffer")
                     .kv("live_block", hexp((void*)other.lo)).kv("live_len", (uint64_t)(other.hi - other.lo)).str());
      else
        g_shadow.erase(v.data(), v.capacity() * 8, id);
    }
    if (delayPct && r.below(100) < delayPct)
      busy_delay_ns(200 + r.below(20000));
    // 4: everything must still be intact right before the iteration ends
    retireFinal(t);
    t.mine.clear();
    if (conflicts && nthreads > 1 && att == 0 && r.below(10) == 0) {
      ++t.voluntary;
      ctx.abort(); // blocks die with the abort
    }
    if (item < N) {
      unsigned kids = (unsigned)r.below(3);
      for (unsigned j = 0; j < kids; ++j)
        ctx.push(N + 2 * item + j);
    }
    ++t.commits;
    progress();
  }
};

CaseResult iterCase(Harness& H, long k, Rng& rng, bool storm) {
  CaseCtx c(H, "per_iter_alloc");
  c.extent        = EXT_WITHIN_SLICE;
  unsigned maxT   = c.maxT;
  unsigned n      = storm ? std::min<unsigned>((unsigned)rng.pick({2, 4, 8, 16}), maxT) : std::min<unsigned>((unsigned)rng.pick({1, 2, 3}), maxT);
  n               = std::max(1u, n);
  unsigned N      = H.thorough ? (unsigned)rng.pick({300, 2000, 8000}) : (unsigned)rng.pick({150, 800, 3000});
  N               = (unsigned)std::min<long>(N, H.paramInt("maxops", 1000000));
  bool conflicts  = rng.below(4) != 0;
  unsigned nNodes = (unsigned)rng.pick({4, 16, 64, 1024});
  unsigned span   = (unsigned)rng.pick({2, 8, 64});
  unsigned bigPct = (unsigned)rng.pick({0, 1, 1, 3});
  unsigned delay  = (unsigned)rng.pick({0, 5, 30});
  unsigned wlKind = (unsigned)rng.below(3);
  uint64_t seed   = rng.next();
  unsigned pointProb = (unsigned)rng.pick({0, 0, 1024, 8192});
  H.begin(k, J().kv("component", "per_iter_alloc").kv("mode", storm ? "storm" : "serial").kv("threads", n).kv("items", N)
                 .kv("conflict_detection", conflicts).kv("lockables", nNodes).kv("lockSpan", span).kv("bigPct", bigPct)
                 .kv("delayPct", delay).kv("worklist", wlKind).kv("pointProb", pointProb).kv("maxT", maxT).kv("sockets", c.nsock).str());
  galois::setActiveThreads(n);
  std::vector<TL> tl(maxT);
  std::vector<Node> nodes(nNodes);
  std::vector<std::atomic<uint32_t>> attempt(3 * (size_t)N + 4);
  for (auto& a : attempt)
    a.store(0, std::memory_order_relaxed);
  IterWork W{c, tl, nodes, attempt, seed, N, n, span, bigPct, delay, conflicts};
  perturb_case(seed, pointProb, 0, 30);
  auto op = [&](unsigned item, auto& ctx) { W(item, ctx); };
  namespace wl = galois::worklists;
  if (conflicts) {
    switch (wlKind) {
    case 0: galois::for_each(galois::iterate(0u, N), op, galois::per_iter_alloc()); break;
    case 1: galois::for_each(galois::iterate(0u, N), op, galois::per_iter_alloc(), galois::wl<wl::PerSocketChunkFIFO<16>>()); break;
    default: galois::for_each(galois::iterate(0u, N), op, galois::per_iter_alloc(), galois::wl<wl::ChunkLIFO<8>>()); break;
    }
  } else {
    switch (wlKind) {
    case 0: galois::for_each(galois::iterate(0u, N), op, galois::per_iter_alloc(), galois::disable_conflict_detection()); break;
    case 1:
      galois::for_each(galois::iterate(0u, N), op, galois::per_iter_alloc(), galois::disable_conflict_detection(),
                       galois::wl<wl::PerSocketChunkFIFO<16>>());
      break;
    default:
      galois::for_each(galois::iterate(0u, N), op, galois::per_iter_alloc(), galois::disable_conflict_detection(),
                       galois::wl<wl::ChunkLIFO<8>>());
      break;
    }
  }
  perturb_off();
  c.flush();
  uint64_t blocks = 0, fallbacks = 0, commits = 0, attempts = 0, voluntary = 0, vblocks = 0, acquires = 0, reins = 0;
  for (auto& t : tl) {
    blocks += t.blocks;
    fallbacks += t.fallbacks;
    commits += t.commits;
    attempts += t.attempts;
    voluntary += t.voluntary;
    vblocks += t.vectorBlocks;
    acquires += t.acquires;
    reins += t.reinserts;
  }
  uint64_t aborts = attempts - commits;
  CaseResult R;
  R.nontrivial = commits >= 10 && c.maxLive.load() >= 2;
  R.sig = std::string("per_iter_alloc|") + (storm ? "storm" : "serial") + "|n" + std::to_string(n) + "|cd" + (conflicts ? "1" : "0") + "|wl" +
          std::to_string(wlKind) + "|ab" + bucket(aborts) + "|fb" + bucket(fallbacks) + "|sock" + std::to_string(c.nsock);
  J obs;
  commonObs(obs, c).kv(storm ? "storm_cases" : "serial_cases", 1).kv("iter_commits", commits).kv("iter_attempts", attempts)
      .kv("iter_aborts", aborts).kv("iter_voluntary_aborts", voluntary).kv("iter_blocks", blocks).kv("malloc_fallbacks", fallbacks)
      .kv("iter_vector_blocks", vblocks).kv("iter_acquires", acquires).kv("iter_shadow_reinserts", reins).kv("max_live", c.maxLive.load());
  if (storm)
    obs.kv("storm_ops", attempts).kv("storm_threads", n);
  R.obs = obs.str();
  return R;
}

Register r1("per_iter_alloc", iterCase, 7, 8);

} // namespace
