// C11 full template matrix (c11_graphs_full only): LC_CSR_CSC_Graph<uint32_t> x {by value, shared} x options
#include "c11_fam_csc.h"

namespace c11 {
void registerX_csc_u32() {
  regCscFull<uint32_t>();
}
} // namespace c11
