// C12 part (b), out-of-core / offline / buffered readers: reference-written files through
// OCFileGraph (segment loads), OCImmutableEdgeGraph (segment iteration, optional transpose file for
// in-edges), OfflineGraph (seek+read per access) and BufferedGraph (loadGraph / loadPartialGraph).
// OCFileGraph, OCImmutableEdgeGraph and BufferedGraph are documented as version-1 only and get
// version-1 files; OfflineGraph gets both versions (version 2 in its one layout: no pad word).
#include "c12_common.h"

#include "galois/Galois.h"
#include "galois/graphs/OCGraph.h"
#include "galois/graphs/OfflineGraph.h"
#include "galois/graphs/BufferedGraph.h"

using namespace c12;
using verif::J;
namespace gg = galois::graphs;

namespace {

struct Range {
  uint64_t a, b;
};

std::vector<Range> pickRanges(Case& c, uint64_t n, bool allowEmpty) {
  std::vector<Range> r;
  const uint64_t exhaustive = c.H->thorough ? 14 : 10;
  if (n <= exhaustive) {
    for (uint64_t a = 0; a <= n; ++a)
      for (uint64_t b = a; b <= n; ++b)
        if (allowEmpty || a < b)
          r.push_back({a, b});
  } else {
    r.push_back({0, n});
    r.push_back({0, 1});
    r.push_back({n - 1, n});
    if (allowEmpty) {
      r.push_back({0, 0});
      r.push_back({n, n});
    }
    unsigned k = c.H->thorough ? 40 : 16;
    for (unsigned i = 0; i < k; ++i) {
      uint64_t a = c.rng.below(n + 1), b = c.rng.below(n + 1);
      if (a > b)
        std::swap(a, b);
      if (i % 3 == 0 && r.back().b <= b)
        a = r.back().b;
      if (a < b || allowEmpty)
        r.push_back({a, b});
    }
  }
  return r;
}

std::vector<uint64_t> edgeStarts(const ref::RefGraph& g) {
  std::vector<uint64_t> E(g.numNodes + 1, 0);
  for (uint64_t s = 0; s < g.numNodes; ++s)
    E[s + 1] = E[s] + g.adj[s].size();
  return E;
}

template <typename T>
constexpr size_t widthOf() {
  if constexpr (std::is_void<T>::value)
    return 0;
  else
    return sizeof(T);
}

// ------------------------------------------------------------------ OCFileGraph
template <typename T>
void ocfile_t(Case& c) {
  std::string path = c.path("f");
  ref::write_gr(path, c.g, 1, c.width);
  gg::OCFileGraph og;
  og.fromFile(path);
  c.libReads++;
  const uint64_t n = c.g.numNodes;
  if (og.size() != n || og.sizeEdges() != c.g.numEdges()) {
    c.violation(c.key("sizes"), J().kv("nodes", (uint64_t)og.size()).kv("edges", (uint64_t)og.sizeEdges()).str());
    return;
  }
  if (std::distance(og.begin(), og.end()) != (ptrdiff_t)n) {
    c.violation(c.key("node-range"), J().kv("distance", (int64_t)std::distance(og.begin(), og.end())).str());
    return;
  }
  for (auto rg : pickRanges(c, n, false)) {
    gg::OCFileGraph::segment_type s;
    og.load(s, og.edge_begin(rg.a), og.edge_end(rg.b - 1), widthOf<T>());
    c.segments++;
    Adj obs(rg.b - rg.a);
    for (uint64_t v = rg.a; v < rg.b; ++v)
      for (auto e = og.edge_begin(v), ee = og.edge_end(v); e != ee; ++e) {
        uint64_t dst = og.getEdgeDst(s, e);
        if constexpr (std::is_void<T>::value)
          obs[v - rg.a].emplace_back(dst, 0);
        else {
          T val = og.template getEdgeData<T>(s, e);
          obs[v - rg.a].push_back(edgeOf<T>(dst, val));
        }
      }
    og.unload(s);
    std::string w = diffRange(c, c.g, rg.a, rg.b, obs);
    if (!w.empty()) {
      c.violation(c.key("content"), J().kv("segment_node_begin", rg.a).kv("segment_node_end", rg.b).raw("diff", w).str());
      return;
    }
  }
}

// ------------------------------------------------------------------ OCImmutableEdgeGraph
template <typename T>
void ocgraph_t(Case& c) {
  using Graph = gg::OCImmutableEdgeGraph<int, T>;
  const bool withTranspose = c.variant & 1;
  const bool keep          = (c.variant >> 1) & 1;
  const ref::RefGraph& g   = c.g;
  const uint64_t n = g.numNodes, m = g.numEdges();
  std::string path = c.path("f");
  ref::write_gr(path, g, 1, c.width);
  ref::RefGraph t = ref::transpose(g);
  Graph og;
  if (withTranspose) {
    std::string tp = c.path("t");
    ref::write_gr(tp, t, 1, c.width);
    og.createFrom(path, tp);
  } else
    og.createFrom(path);
  c.libReads++;
  if (og.size() != n || og.sizeEdges() != m) {
    c.violation(c.key("sizes"), J().kv("nodes", (uint64_t)og.size()).kv("edges", (uint64_t)og.sizeEdges()).str());
    return;
  }
  if (keep)
    og.keepInMemory();
  size_t per = (size_t)c.rng.pick<uint64_t>({1, 2, 5, m / 3 + 1, m + 3});
  Adj outObs(n), inObs(n);
  uint64_t next = 0;
  unsigned guard = 0;
  for (auto seg = og.nextSegment(per); seg; seg = og.nextSegment(seg, per)) {
    if (++guard > n + 2) {
      c.violation(c.key("segments-do-not-terminate"), J().kv("segments", guard).kv("nodes", n).str());
      return;
    }
    og.load(seg);
    c.segments++;
    auto b = og.begin(seg), e = og.end(seg);
    if (!seg.loaded()) {
      // load() is a no-op once keepInMemory() was called; a segment beyond the in-memory one has
      // no mapping and must not be dereferenced
      c.violation(c.key("segment-not-loaded", keep ? "keepInMemory" : ""),
                  J().kv("what", "load(segment) left the segment unloaded; its edges cannot be read")
                      .kv("segment_node_begin", (uint64_t)*b).kv("segment_node_end", (uint64_t)*e).kv("nodes", n).kv("edges", m)
                      .kv("first_node_out_degree", (uint64_t)g.adj[0].size()).kv("first_node_in_degree", (uint64_t)t.adj[0].size())
                      .kv("transpose_file", withTranspose).str());
      return;
    }
    if (*b != next || *e <= *b) {
      c.violation(c.key("segments-not-consecutive"),
                  J().kv("expected_begin", next).kv("begin", (uint64_t)*b).kv("end", (uint64_t)*e).kv("edges_per_segment", (uint64_t)per).str());
      og.unload(seg);
      return;
    }
    for (auto v = b; v != e; ++v) {
      for (auto ei = og.edge_begin(seg, *v, galois::MethodFlag::UNPROTECTED),
                ee = og.edge_end(seg, *v, galois::MethodFlag::UNPROTECTED);
           ei != ee; ++ei) {
        uint64_t dst = og.getEdgeDst(seg, ei);
        if constexpr (std::is_void<T>::value)
          outObs[*v].emplace_back(dst, 0);
        else {
          T val = og.getEdgeData(seg, ei);
          outObs[*v].push_back(edgeOf<T>(dst, val));
        }
      }
      for (auto ei = og.in_edge_begin(seg, *v, galois::MethodFlag::UNPROTECTED),
                ee = og.in_edge_end(seg, *v, galois::MethodFlag::UNPROTECTED);
           ei != ee; ++ei) {
        uint64_t dst = og.getInEdgeDst(seg, ei);
        if constexpr (std::is_void<T>::value)
          inObs[*v].emplace_back(dst, 0);
        else {
          T val = og.getInEdgeData(seg, ei);
          inObs[*v].push_back(edgeOf<T>(dst, val));
        }
      }
    }
    next = *e;
    og.unload(seg);
  }
  if (next != n) {
    c.violation(c.key("segments-do-not-cover"),
                J().kv("covered_nodes", next).kv("nodes", n).kv("edges_per_segment", (uint64_t)per).str());
    return;
  }
  std::string w = diffWhole(c, g, outObs);
  if (!w.empty())
    c.violation(c.key("content"), J().kv("edges_per_segment", (uint64_t)per).raw("diff", w).str());
  // in-edges: the transpose file if one was given, else the graph itself ("assumes symmetric")
  w = diffWhole(c, withTranspose ? t : g, inObs);
  if (!w.empty())
    c.violation(c.key("in-edge-content"), J().kv("edges_per_segment", (uint64_t)per).kv("transpose_file", withTranspose).raw("diff", w).str());
}

// ------------------------------------------------------------------ OfflineGraph
template <typename T>
std::string offlineRead(Case& c, const std::string& path, bool shuffled) {
  try {
    gg::OfflineGraph og(path);
    c.libReads++;
    const uint64_t n = c.g.numNodes;
    if (og.size() != n || og.sizeEdges() != c.g.numEdges() || og.edgeSize() != c.width)
      return J().kv("what", "sizes").kv("nodes", (uint64_t)og.size()).kv("edges", (uint64_t)og.sizeEdges())
          .kv("edge_size", (uint64_t)og.edgeSize()).str();
    std::vector<uint64_t> order(n);
    for (uint64_t i = 0; i < n; ++i)
      order[i] = i;
    if (shuffled)
      for (uint64_t i = n; i > 1; --i)
        std::swap(order[i - 1], order[c.rng.below(i)]);
    Adj obs(n);
    for (uint64_t v : order) {
      // destinations first, then data (two passes over the node's edges: forces seeks)
      auto eb = og.edge_begin(v), ee = og.edge_end(v);
      std::vector<uint64_t> d;
      for (auto e = eb; e != ee; ++e)
        d.push_back(og.getEdgeDst(e));
      size_t i = 0;
      for (auto e = eb; e != ee; ++e, ++i) {
        if constexpr (std::is_void<T>::value)
          obs[v].emplace_back(d[i], 0);
        else
          obs[v].push_back(edgeOf<T>(d[i], og.template getEdgeData<T>(e)));
      }
    }
    // operator[] = the on-disk prefix sum
    uint64_t run = 0;
    for (uint64_t v = 0; v < n && v < 64; ++v) {
      run += c.g.adj[v].size();
      if (og[v] != run)
        return J().kv("what", "operator[] (edge prefix sum)").kv("node", v).kv("expected", run).kv("observed", (uint64_t)og[v]).str();
    }
    return diffWhole(c, c.g, obs);
  } catch (const char* msg) {
    return J().kv("what", "OfflineGraph threw").kv("message", msg).str();
  } catch (const std::exception& e) {
    return J().kv("what", "OfflineGraph threw").kv("message", e.what()).str();
  }
}

template <typename T>
void offline_t(Case& c) {
  const bool shuffled = c.variant & 1;
  std::string in      = c.path("f");
  ref::write_gr(in, c.g, c.version, c.width, ref::V2Pad::None);
  std::string w = offlineRead<T>(c, in, shuffled);
  if (!w.empty())
    c.violation(c.key("content", c.v2class()), J().kv("file_bytes", fileSize(in)).raw("diff", w).str());
}

// ------------------------------------------------------------------ BufferedGraph
template <typename T>
std::string bufferedEnumerate(Case& c, gg::BufferedGraph<T>& bg, uint64_t a, uint64_t b) {
  // degrees first: edgeData()/edgeDestination() on an edge the object has not loaded aborts or
  // returns a dummy, so a wrong edge range is reported here instead of being walked
  for (uint64_t v = a; v < b; ++v) {
    uint64_t eb = *bg.edgeBegin(v), ee = *bg.edgeEnd(v);
    if (ee < eb || ee - eb != c.g.adj[v].size())
      return J().kv("what", "edgeBegin/edgeEnd of node").kv("node", v).kv("expected_degree", (uint64_t)c.g.adj[v].size())
          .kv("edgeBegin", eb).kv("edgeEnd", ee).str();
  }
  Adj obs(b - a);
  for (uint64_t v = a; v < b; ++v)
    for (auto e = bg.edgeBegin(v), ee = bg.edgeEnd(v); e != ee; ++e) {
      uint64_t dst = bg.edgeDestination(*e);
      if constexpr (std::is_void<T>::value)
        obs[v - a].emplace_back(dst, 0);
      else
        obs[v - a].push_back(edgeOf<T>(dst, bg.edgeData(*e)));
    }
  return diffRange(c, c.g, a, b, obs);
}

template <typename T>
void buffered_t(Case& c) {
  const ref::RefGraph& g = c.g;
  const uint64_t n = g.numNodes, m = g.numEdges();
  std::string path = c.path("f");
  ref::write_gr(path, g, 1, c.width);
  const bool partial = c.comp == "BufferedGraph.loadPartialGraph";
  if (!partial) {
    gg::BufferedGraph<T> bg;
    bg.loadGraph(path);
    c.libReads++;
    if (bg.size() != n || bg.sizeEdges() != m) {
      c.violation(c.key("sizes"), J().kv("nodes", (uint64_t)bg.size()).kv("edges", (uint64_t)bg.sizeEdges()).str());
      return;
    }
    std::string w = bufferedEnumerate<T>(c, bg, 0, n);
    if (!w.empty())
      c.violation(c.key("content"), J().raw("diff", w).str());
    return;
  }
  auto E = edgeStarts(g);
  gg::BufferedGraph<T> reused;
  const bool reuse = c.variant & 1; // resetAndFree() + load again on the same object
  for (auto rg : pickRanges(c, n, true)) {
    gg::BufferedGraph<T> fresh;
    gg::BufferedGraph<T>& bg = reuse ? reused : fresh;
    if (reuse)
      bg.resetAndFree();
    bg.loadPartialGraph(path, rg.a, rg.b, E[rg.a], E[rg.b], n, m);
    c.partRanges++;
    if (bg.size() != n || bg.sizeEdges() != m || (rg.a < rg.b && bg.getNodeOffset() != rg.a)) {
      c.violation(c.key("sizes"), J().kv("nodes", (uint64_t)bg.size()).kv("edges", (uint64_t)bg.sizeEdges())
                                      .kv("node_offset", (uint64_t)bg.getNodeOffset()).kv("node_begin", rg.a).str());
      return;
    }
    if (rg.a == rg.b)
      continue;
    std::string w = bufferedEnumerate<T>(c, bg, rg.a, rg.b);
    if (!w.empty()) {
      c.violation(c.key("content", E[rg.a] == E[rg.b] ? "edgeless-range" : ""), J().kv("node_begin", rg.a).kv("node_end", rg.b).kv("edge_begin", E[rg.a])
                                        .kv("edge_end", E[rg.b]).kv("reused_object", reuse).raw("diff", w).str());
      continue; // keep checking the other ranges (violations are reported once per key and case)
    }
  }
}

void buffered_dispatch(Case& c) {
  switch (c.width) {
  case 0: buffered_t<void>(c); break;
  case 1: buffered_t<uint8_t>(c); break;
  case 2: buffered_t<uint16_t>(c); break;
  case 4: buffered_t<uint32_t>(c); break;
  case 8: buffered_t<uint64_t>(c); break;
  default: fprintf(stderr, "c12: BufferedGraph width %u not instantiated\n", c.width); exit(2);
  }
}

} // namespace

namespace c12 {
void run_ocfile(Case& c) { C12_WIDTH_SWITCH(c.width, ocfile_t, c); }
void run_ocgraph(Case& c) {
  switch (c.width) {
  case 0: ocgraph_t<void>(c); break;
  case 4: ocgraph_t<uint32_t>(c); break;
  case 8: ocgraph_t<uint64_t>(c); break;
  case 12: ocgraph_t<W12>(c); break;
  default: fprintf(stderr, "c12: OCImmutableEdgeGraph width %u not instantiated\n", c.width); exit(2);
  }
}
void run_offline(Case& c) { C12_WIDTH_SWITCH(c.width, offline_t, c); }
void run_buffered(Case& c) { buffered_dispatch(c); }
} // namespace c12
