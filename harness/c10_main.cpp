// C10 driver: generates operation programs (sequential / cautious / bare / re-add probe) for a morph-graph flavour
// taken from the registry (filled by the c10_f_*.cpp TUs linked into this executable), runs them through
// Runner<G,FL> (c10_graph.h) and reports violations + observed counters.
#define VERIF_MAIN_TU
#include "c10_common.h"

#include "galois/Galois.h"
#include "galois/substrate/ThreadPool.h"


using namespace c10;
namespace gs = galois::substrate;

namespace {

struct Gen {
  Rng& rng;
  const Flavour& fl;
  CaseSpec& s;
  bool canIn, canRemoveViaIn, canSort;
  std::vector<std::pair<unsigned, unsigned>> weights; // (kind, weight)
  unsigned wsum = 0;
  unsigned removalBudget = 0; // node removals still allowed (keeps most of the graph alive)

  Gen(Rng& r, const Flavour& f, CaseSpec& sp) : rng(r), fl(f), s(sp) {
    canIn          = f.flags & (F_INOUT | F_UNDIRECTED);
    canRemoveViaIn = (f.flags & F_UNDIRECTED) || ((f.flags & F_SEP) && (f.flags & F_INOUT));
    canSort        = !(f.flags & F_NOLOCK);
  }
  void w(unsigned kind, unsigned weight) {
    if (!weight)
      return;
    weights.emplace_back(kind, weight);
    wsum += weight;
  }
  void setWeights(bool bare) {
    weights.clear();
    wsum = 0;
    w(K_ADD_EDGE, 18);
    w(K_ADD_MULTI, s.multiEdges ? 8 : 0);
    w(K_REMOVE_FIND, 8);
    w(K_REMOVE_ENUM, 6);
    w(K_REMOVE_VIA_IN, canRemoveViaIn ? 4 : 0);
    w(K_FIND, 8);
    w(K_FIND_IN, canIn ? 4 : 0);
    w(K_UPDATE_NODE, 8);
    w(K_UPDATE_EDGE, 8);
    w(K_UPDATE_EDGE_IN, canIn ? 4 : 0);
    w(K_ENUM_OUT, 5);
    w(K_ENUM_IN, canIn ? 3 : 0);
    w(K_SORT, canSort ? 2 : 0);
    w(K_REMOVE_NODE, s.nodeRemoval ? (s.mode == M_SEQ ? 5 : 3) : 0);
    (void)bare;
  }
  unsigned kind() {
    unsigned x = (unsigned)rng.below(wsum);
    for (auto& kw : weights) {
      if (x < kw.second)
        return kw.first;
      x -= kw.second;
    }
    return K_FIND;
  }
  // operands from `cands` (non-empty)
  Op op(const std::vector<uint32_t>& cands) {
    Op o;
    o.kind = (uint8_t)kind();
    if (o.kind == K_REMOVE_NODE) {
      if (removalBudget)
        --removalBudget;
      else
        o.kind = K_UPDATE_NODE;
    }
    o.a    = cands[rng.below(cands.size())];
    o.v    = 1 + rng.below(1000000);
    if (needsB(o.kind)) {
      if (s.selfLoops && rng.below(6) == 0)
        o.b = o.a;
      else if (cands.size() < 2) {
        if (s.selfLoops)
          o.b = o.a;
        else {
          o.kind = K_UPDATE_NODE;
        }
      } else {
        do
          o.b = cands[rng.below(cands.size())];
        while (o.b == o.a);
      }
    }
    return o;
  }
};

void features(Rng& rng, CaseSpec& s, unsigned multiPct, unsigned selfPct, unsigned removalPct) {
  s.multiEdges  = rng.below(100) < multiPct;
  s.selfLoops   = rng.below(100) < selfPct;
  s.nodeRemoval = rng.below(100) < removalPct;
}

void genSequential(Rng& rng, const Flavour& fl, CaseSpec& s, bool thorough) {
  s.mode    = M_SEQ;
  s.threads = 1;
  features(rng, s, 50, 35, 60);
  s.n0          = (uint32_t)rng.range(1, 10);
  uint32_t extra = (uint32_t)rng.below(6);
  s.nTotal      = s.n0 + extra;
  unsigned nops = (unsigned)rng.pick({10, 30, 80, 200});
  if (thorough && rng.below(4) == 0)
    nops = 600;
  for (uint32_t i = 0; i < s.n0; ++i) {
    Op o;
    o.kind = K_ADD_NODE;
    o.a    = i;
    o.v    = 1 + rng.below(1000);
    s.init.push_back(o);
  }
  Gen g(rng, fl, s);
  g.setWeights(false);
  g.removalBudget = std::max(1u, s.nTotal / 2);
  std::vector<uint32_t> cands;
  for (uint32_t i = 0; i < s.nTotal; ++i)
    cands.push_back(i);
  // positions at which the extra nodes are created
  std::vector<unsigned> createAt;
  for (uint32_t i = 0; i < extra; ++i)
    createAt.push_back((unsigned)rng.below(nops));
  std::sort(createAt.begin(), createAt.end());
  uint32_t nextNew = s.n0;
  size_t ci        = 0;
  for (unsigned k = 0; k < nops; ++k) {
    Prog p;
    p.nops = 1;
    if (ci < createAt.size() && createAt[ci] <= k) {
      p.ops[0].kind = K_ADD_NODE;
      p.ops[0].a    = nextNew++;
      p.ops[0].v    = 1 + rng.below(1000);
      ++ci;
    } else
      p.ops[0] = g.op(cands);
    s.progs.push_back(p);
  }
}

void genReadd(Rng& rng, const Flavour& fl, CaseSpec& s) {
  s.mode    = M_READD;
  s.threads = 1;
  s.n0 = s.nTotal = (uint32_t)rng.range(3, 8);
  for (uint32_t i = 0; i < s.n0; ++i) {
    Op o;
    o.kind = K_ADD_NODE;
    o.a    = i;
    o.v    = 1;
    s.init.push_back(o);
  }
  for (unsigned k = 0; k < 2 * s.n0; ++k) {
    Op o;
    o.kind = K_ADD_EDGE;
    o.a    = (uint32_t)rng.below(s.n0);
    do
      o.b = (uint32_t)rng.below(s.n0);
    while (o.b == o.a);
    o.v = 1 + rng.below(1000);
    s.init.push_back(o);
  }
  for (unsigned k = 0; k < 3; ++k) {
    Prog p;
    p.nops        = 1;
    p.ops[0].kind = K_REMOVE_NODE;
    p.ops[0].a    = (uint32_t)rng.below(s.n0);
    s.progs.push_back(p);
  }
  (void)fl;
}

void genLoop(Rng& rng, const Flavour& fl, CaseSpec& s, bool bare, bool thorough, long maxItems, unsigned maxT) {
  bool nolock = fl.flags & F_NOLOCK;
  s.mode      = bare ? M_BARE : M_CAUTIOUS;
  switch (rng.below(6)) {
  case 0: s.threads = maxT; break;
  case 1: s.threads = 2; break;
  case 2: s.threads = 1; break;
  default: s.threads = 1 + (unsigned)rng.below(maxT); break;
  }
  if (bare)
    features(rng, s, 0, 12, 0);
  else
    features(rng, s, 25, 15, 50);
  s.n0 = bare ? (uint32_t)rng.pick({2, 3, 4, 8, 32, 128}) : (uint32_t)rng.pick({4, 8, 16, 64, 256, 512});
  uint32_t extra = bare ? (uint32_t)rng.pick({0, 0, 16, 200}) : (uint32_t)rng.pick({0u, s.n0 / 4, s.n0 / 2, s.n0});
  s.nTotal       = s.n0 + extra;
  unsigned items = thorough ? (unsigned)rng.pick({300, 1500, 5000, 12000}) : (unsigned)rng.pick({200, 800, 2500, 5000});
  if (maxItems > 0)
    items = std::min<unsigned>(items, (unsigned)maxItems);
  items          = std::max(items, extra);
  s.parallelInit = rng.below(2);
  s.unprotectedC = !bare && rng.below(4) == 0;
  s.parts        = 1;
  if (nolock) {
    s.parts = (unsigned)rng.pick({1, 2, 4, 8, 16});
    while (s.parts > 1 && s.nTotal / s.parts < 2)
      s.parts /= 2;
  }
  unsigned delayPct = (unsigned)rng.pick({0, 0, 2, 10, 30});
  unsigned window   = (unsigned)rng.pick({2u, 4u, 16u, s.nTotal});

  // initial graph
  for (uint32_t i = 0; i < s.n0; ++i) {
    Op o;
    o.kind = K_ADD_NODE;
    o.a    = i;
    o.v    = 1 + rng.below(1000);
    s.init.push_back(o);
  }
  Gen g(rng, fl, s);
  {
    unsigned m0 = s.n0 * (unsigned)rng.pick({0, 1, 3});
    for (unsigned k = 0; k < m0 && s.n0 >= 2; ++k) {
      Op o;
      o.kind = (s.multiEdges && rng.below(5) == 0) ? K_ADD_MULTI : K_ADD_EDGE;
      o.a    = (uint32_t)rng.below(s.n0);
      if (nolock) { // edges stay inside a partition
        uint32_t cnt = (s.n0 - (o.a % s.parts) + s.parts - 1) / s.parts;
        o.b          = (o.a % s.parts) + s.parts * (uint32_t)rng.below(cnt);
      } else
        o.b = (uint32_t)rng.below(s.n0);
      if (o.b == o.a && !s.selfLoops)
        continue;
      o.v = 1 + rng.below(1000000);
      s.init.push_back(o);
    }
  }
  g.setWeights(bare);
  g.removalBudget = std::max(1u, s.nTotal / 3);
  // which item creates which new node
  std::vector<std::vector<uint32_t>> creates(items);
  for (uint32_t l = s.n0; l < s.nTotal; ++l)
    creates[rng.below(items)].push_back(l);
  std::vector<uint32_t> cands;
  for (unsigned it = 0; it < items; ++it) {
    Prog p;
    p.delay = rng.below(100) < delayPct ? (uint8_t)rng.range(1, 3) : 0;
    if (p.delay == 2 && rng.below(3))
      p.delay = 1;
    unsigned want = bare ? 1 : 1 + (unsigned)rng.below(MAXOPS);
    // candidate operands of this item
    cands.clear();
    uint32_t universe = bare ? s.n0 : s.nTotal; // bare: static live node set only
    uint32_t part     = 0;
    if (!creates[it].empty())
      part = creates[it][0] % s.parts;
    else
      part = (uint32_t)rng.below(s.parts);
    uint32_t base = (uint32_t)rng.below(universe);
    for (unsigned k = 0; k < window && k < universe; ++k) {
      uint32_t l = (base + k) % universe;
      if (nolock && l % s.parts != part)
        continue;
      cands.push_back(l);
    }
    if (nolock && cands.size() < 2) {
      cands.clear();
      for (uint32_t l = part; l < universe; l += s.parts)
        cands.push_back(l);
    }
    for (uint32_t l : creates[it]) {
      if (p.nops >= MAXOPS || (nolock && l % s.parts != part)) { // hand the creation on to a later item (or drop it)
        if (it + 1 < items)
          creates[it + 1].push_back(l);
        continue;
      }
      Op o;
      o.kind          = K_ADD_NODE;
      o.a             = l;
      o.v             = 1 + rng.below(1000);
      p.ops[p.nops++] = o;
      if (!bare) {
        cands.push_back(l);
        // link the new node to the neighbourhood right away (the usual refinement pattern)
        if (p.nops < MAXOPS && cands.size() >= 2) {
          Op e;
          e.kind = K_ADD_EDGE;
          e.a    = rng.below(2) ? l : cands[rng.below(cands.size() - 1)];
          e.b    = e.a == l ? cands[rng.below(cands.size() - 1)] : l;
          e.v    = 1 + rng.below(1000000);
          if (e.a != e.b)
            p.ops[p.nops++] = e;
        }
      }
      if (bare)
        break;
    }
    if (bare && p.nops == 1) {
      // a creation item: hand the remaining creations on
      for (size_t k = 1; k < creates[it].size(); ++k)
        if (it + 1 < items)
          creates[it + 1].push_back(creates[it][k]);
    } else {
      while (p.nops < want && p.nops < MAXOPS && !cands.empty())
        p.ops[p.nops++] = g.op(cands);
    }
    if (p.nops == 0) {
      Op o;
      o.kind   = K_UPDATE_NODE;
      o.a      = (uint32_t)rng.below(universe);
      o.v      = 1;
      p.ops[0] = o;
      p.nops   = 1;
    }
    s.progs.push_back(p);
  }
}

} // namespace

// After a case that reported a violation the process may be internally corrupt (a graph that diverged from the model
// can have written through invalid iterators). The case has ended normally; the remaining cases continue in a fresh
// process image that appends to the same event stream. Costs nothing while the check is silent.
static void continueInFreshProcess(int argc, char** argv, long nextCase) {
  std::vector<std::string> args;
  for (int i = 0; i < argc; ++i) {
    if (!strcmp(argv[i], "--start") && i + 1 < argc) {
      ++i;
      continue;
    }
    args.push_back(argv[i]);
  }
  args.push_back("--start");
  args.push_back(std::to_string(nextCase));
  std::vector<char*> av;
  for (auto& a : args)
    av.push_back(const_cast<char*>(a.c_str()));
  av.push_back(nullptr);
  fflush(nullptr);
  execv("/proc/self/exe", av.data());
  perror("execv");
  _exit(2);
}

int main(int argc, char** argv) {
  Harness H("C10", argc, argv);
  galois::SharedMemSys G;
  auto& tp       = gs::getThreadPool();
  unsigned maxT  = std::min(64u, tp.getMaxThreads());
  unsigned nsock = tp.getMaxSockets();
  auto& reg      = registry();
  std::sort(reg.begin(), reg.end(), [](const Flavour& a, const Flavour& b) { return strcmp(a.name, b.name) < 0; });
  std::string onlyFl   = H.param("flavour");
  std::string onlyMode = H.param("mode");
  long maxItems        = H.paramInt("maxitems", 0);
  std::vector<const Flavour*> pool;
  for (auto& f : reg)
    if (onlyFl.empty() || strstr(f.name, onlyFl.c_str()))
      pool.push_back(&f);
  if (pool.empty()) {
    fprintf(stderr, "no flavour matches\n");
    return 2;
  }

  for (long k = H.firstCase(); k < H.endCase(); ++k) {
    Rng rng(H.caseSeed(k));
    const Flavour& fl = *pool[rng.below(pool.size())];
    CaseSpec s;
    unsigned mode;
    {
      unsigned x = (unsigned)rng.below(100);
      mode       = x < 45 ? M_SEQ : x < 78 ? M_CAUTIOUS : x < 97 ? M_BARE : M_READD;
    }
    if (onlyMode == "seq")
      mode = M_SEQ;
    else if (onlyMode == "cautious")
      mode = M_CAUTIOUS;
    else if (onlyMode == "bare")
      mode = M_BARE;
    else if (onlyMode == "readd")
      mode = M_READD;
    else if (onlyMode == "loop" && (mode == M_SEQ || mode == M_READD))
      mode = rng.below(3) ? M_CAUTIOUS : M_BARE;
    if (mode == M_BARE && (fl.flags & F_NOLOCK))
      mode = M_CAUTIOUS; // a graph without locks cannot be driven by bare calls
    s.dseed = rng.next();
    switch (mode) {
    case M_SEQ: genSequential(rng, fl, s, H.thorough); break;
    case M_READD: genReadd(rng, fl, s); break;
    default: genLoop(rng, fl, s, mode == M_BARE, H.thorough, maxItems, maxT); break;
    }
    bool loop          = s.mode == M_CAUTIOUS || s.mode == M_BARE;
    unsigned pointProb = loop ? (unsigned)rng.pick({0, 0, 64, 1024, 4096}) : 0;
    unsigned spinProb  = loop ? (unsigned)rng.pick({0, 0, 512, 8192}) : 0;
    uint64_t pseed     = rng.next();
    size_t nops        = 0;
    for (auto& p : s.progs)
      nops += p.nops;
    H.hangKey = std::string("C10:") + fl.family + ":hang";
    H.begin(k, J().kv("component", fl.family).kv("flavour", fl.name).kv("mode", modeName(s.mode)).kv("threads", s.threads)
                   .kv("sockets", nsock).kv("n0", s.n0).kv("nTotal", s.nTotal).kv("init_ops", (uint64_t)s.init.size())
                   .kv("items", (uint64_t)s.progs.size()).kv("ops", (uint64_t)nops).kv("multiEdges", s.multiEdges)
                   .kv("selfLoops", s.selfLoops).kv("nodeRemoval", s.nodeRemoval).kv("parts", s.parts)
                   .kv("unprotectedC", s.unprotectedC).kv("parallelInit", s.parallelInit).kv("pointProb", pointProb)
                   .kv("spinProb", spinProb).str());
    CaseResult r;
    if (loop)
      perturb_case(pseed, pointProb, spinProb, 40);
    galois::setActiveThreads(s.threads);
    fl.run(s, fl, r);
    perturb_off();
    galois::setActiveThreads(1);

    for (auto& v : r.viols)
      H.violation(v.key, v.detail);
    uint64_t aborts = r.attempts > r.commits ? r.attempts - r.commits : 0;
    bool nontrivial = loop ? (r.threadsCommitted >= 2 && aborts > 0) : (s.mode == M_SEQ && r.stepChecks >= 10);
    std::string feat = std::string(s.multiEdges ? "m" : "") + (s.selfLoops ? "s" : "") + (s.nodeRemoval ? "r" : "") +
                       (s.unprotectedC ? "u" : "");
    std::string sig = std::string(fl.name) + "|" + modeName(s.mode) + "|s" + std::to_string(nsock) + "|t" +
                      std::to_string(s.threads) + "|n" + std::to_string(s.n0) + "+" + std::to_string(s.nTotal - s.n0) + "|i" +
                      std::to_string(s.progs.size()) + "|p" + std::to_string(s.parts) + "|" + feat + "|a" + (aborts ? "1" : "0") +
                      "|c" + std::to_string(r.threadsCommitted);
    J obs;
    obs.kv("attempts", r.attempts).kv("commits", r.commits).kv("aborted_attempts", aborts).kv("ops_executed", r.opsExecuted)
        .kv("ops_skipped_operand_absent", r.opsSkipped).kv("nodes_created_in_loop", r.nodesCreatedInLoop)
        .kv("nodes_removed_in_loop", r.nodesRemoved).kv("edges_removed_in_loop", r.edgesRemoved)
        .kv("final_nodes", r.nodesFinal).kv("final_edges", r.edgesFinal).kv("stepwise_model_checks", r.stepChecks)
        .kv("ops_replayed_serially", r.replayOps).kv("nodes_via_local_iterators", r.localIterNodes)
        .kv("locks_checked_free", r.locksChecked).kv("multi_edge_ops", r.multiEdgeOps).kv("self_loop_ops", r.selfLoopOps)
        .kv("cases_tainted_by_sequential_defect", (int)r.tainted).kv("readd_probes", r.readdProbes)
        .kv("readd_probes_asymmetric", r.readdAsymmetric).kv("loop_cases", (int)loop).kv("sequential_cases", (int)(s.mode == M_SEQ))
        .kv("cautious_cases", (int)(s.mode == M_CAUTIOUS)).kv("bare_cases", (int)(s.mode == M_BARE))
        .kv("loop_cases_with_aborts_and_2_threads", (int)(loop && nontrivial))
        .kv("multi_socket_cases", (int)(loop && nsock > 1 && r.threadsCommitted > 1));
    for (unsigned kd = 0; kd < K_NKINDS; ++kd)
      if (r.kindCount[kd])
        obs.kv((std::string("op_") + kindName(kd)).c_str(), r.kindCount[kd]);
    H.end(k, sig, nontrivial, obs.str());
    if (!r.viols.empty() && H.only < 0) {
      // hand the failpoint counters of this process image to the driver (it sums every "done" event)
      H.line(J().kv("ev", "done").kv("partial", true).kv("violations", H.nViolations).raw("points", point_stats_json()).str());
      continueInFreshProcess(argc, argv, k + 1);
    }
  }
  return 0;
}
