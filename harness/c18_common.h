// C18 — Gluon synchronisation: shared declarations of the harness TUs.
//
//   c18_main.cpp     case generation, write plans, MPI gather, reference oracle (rank 0)
//   c18_g_*.cpp      one TU per CuSP policy: cuspPartitionGraph<Policy, NodeData, void> exactly as
//                    lonestar/libdistbench/include/DistBench/Input.h calls it
//   c18_f_*.cpp      one TU per synchronised field: the field's sync structures are declared with the
//                    library's own GALOIS_SYNC_STRUCTURE_* macros, sync<W,R,Reduce,Bitset,async> is
//                    instantiated for all 9 (write,read) location pairs
#pragma once

// MetadataMode statistics of GluonSubstrate are published only with this knob (DistStats.h: #ifndef ... 0).
// It only adds reportStat calls in the header templates instantiated by this harness.
#define MORE_DIST_STATS 1

#include "galois/DistGalois.h"
#include "galois/AtomicHelpers.h"
#include "galois/DynamicBitset.h"
#include "galois/graphs/DistributedGraph.h"
#include "galois/graphs/GluonSubstrate.h"
#include "galois/runtime/SyncStructures.h"

#include <atomic>
#include <cstdint>
#include <memory>
#include <string>
#include <vector>

// apps define these two when not built for GPUs (SyncStructures.h refers to neither in the CPU variant,
// kept for symmetry with the apps' preamble)
enum { CPU, GPU_CUDA };

constexpr unsigned C18_VECLEN = 3;

// Node data: one field per sync structure family. Global name `NodeData` is what the macros expect.
struct NodeData {
  std::atomic<uint32_t> f_min; // GALOIS_SYNC_STRUCTURE_REDUCE_MIN  (atomic, like bfs dist_current)
  uint64_t f_max;              // GALOIS_SYNC_STRUCTURE_REDUCE_MAX  (plain 8-byte value)
  std::atomic<uint32_t> f_add; // GALOIS_SYNC_STRUCTURE_REDUCE_ADD  (atomic, like kcore trim)
  double f_sum;                // GALOIS_SYNC_STRUCTURE_REDUCE_ADD  (plain floating point, like pagerank residual)
  uint32_t f_set;              // GALOIS_SYNC_STRUCTURE_REDUCE_SET
  std::vector<double> f_vec;   // GALOIS_SYNC_STRUCTURE_REDUCE_PAIR_WISE_ADD_ARRAY (like matrixcompletion)
};

// fields kept outside the node data (the *_ARRAY structures index a global array by local id)
extern std::vector<uint32_t> a_min; // GALOIS_SYNC_STRUCTURE_REDUCE_MIN_ARRAY
extern std::vector<uint64_t> a_add; // GALOIS_SYNC_STRUCTURE_REDUCE_ADD_ARRAY
extern std::vector<uint32_t> a_set; // GALOIS_SYNC_STRUCTURE_REDUCE_SET_ARRAY

namespace c18 {

using Graph     = galois::graphs::DistGraph<NodeData, void>;
using Substrate = galois::graphs::GluonSubstrate<Graph>;
using GraphPtr  = std::unique_ptr<Graph>;

// ------------------------------------------------------------------ partitioning (c18_g_*.cpp)
enum Scheme : unsigned { // DistBench/Input.h PARTITIONING_SCHEME, same order
  S_OEC = 0, S_IEC, S_HOVC, S_HIVC, S_CVC, S_CVC_IEC, S_GINGER_O, S_GINGER_I, S_FENNEL_O, S_FENNEL_I, S_SUGAR_O,
  NUM_SCHEMES
};
inline const char* schemeName(unsigned s) {
  static const char* n[] = {"oec", "iec", "hovc", "hivc", "cvc", "cvc-iec", "ginger-o", "ginger-i",
                            "fennel-o", "fennel-i", "sugar-o"};
  return s < NUM_SCHEMES ? n[s] : "?";
}
enum Dir : unsigned { D_OUT = 0, D_IN, D_SYM }; // constructGraph<iterateOut=true>, <false>, constructSymmetricGraph
inline const char* dirName(unsigned d) { return d == D_OUT ? "out" : d == D_IN ? "in" : "sym"; }

enum PolicyId : unsigned { P_NOCOMM = 0, P_HVC, P_CVC, P_CVCFLIP, P_GINGER, P_FENNEL, P_SUGAR, P_SUGARFLIP };
inline const char* policyName(unsigned p) {
  static const char* n[] = {"NoCommunication", "GenericHVC", "GenericCVC", "GenericCVCColumnFlip",
                            "GingerP", "FennelP", "SugarP", "SugarColumnFlipP"};
  return p < 8 ? n[p] : "?";
}
// one call of galois::cuspPartitionGraph<Policy, NodeData, void>(file, inType, outType, symmetric, transposeFile)
// (all other arguments defaulted, as in Input.h)
struct PartCall {
  unsigned policy;
  bool inCSC, outCSC, symmetric;
};
GraphPtr part_nocomm(const std::string& f, const std::string& ft, const PartCall& c);
GraphPtr part_hvc(const std::string& f, const std::string& ft, const PartCall& c);
GraphPtr part_cvc(const std::string& f, const std::string& ft, const PartCall& c);
GraphPtr part_cvcflip(const std::string& f, const std::string& ft, const PartCall& c);
GraphPtr part_ginger(const std::string& f, const std::string& ft, const PartCall& c);
GraphPtr part_fennel(const std::string& f, const std::string& ft, const PartCall& c);
GraphPtr part_sugar(const std::string& f, const std::string& ft, const PartCall& c);
GraphPtr part_sugarflip(const std::string& f, const std::string& ft, const PartCall& c);

// ------------------------------------------------------------------ fields (c18_f_*.cpp)
enum Red : unsigned { R_MIN = 0, R_MAX, R_ADD, R_SET };
inline const char* redName(unsigned r) {
  static const char* n[] = {"min", "max", "add", "set"};
  return r < 4 ? n[r] : "?";
}
enum Kind : unsigned { K_U32 = 0, K_U64, K_F64 }; // how the 64-bit words of a value are to be read

// Values travel through the harness as `words` 64-bit words (bit pattern of a double for K_F64).
struct FieldVT {
  const char* name;      // field name
  const char* structure; // the macro that declares its sync structure
  unsigned red;          // Red
  unsigned kind;         // Kind
  unsigned words;        // 64-bit words per value
  bool podValue;         // ValTy is memory copyable (PODResizeableArray path) or not (gstl::Vector path)
  bool asyncOK;          // sync<..., async = true> is instantiated for this field
  // raw access (initialisation / observation)
  void (*store)(Graph& g, uint32_t lid, const uint64_t* w);
  void (*load)(Graph& g, uint32_t lid, uint64_t* w);
  // app-like write of one value at a proxy: min/max: atomicMin/Max-style (changes only on improvement),
  // add: accumulate, set: assign. Returns true iff the proxy counts as updated (the app would mark the bitset).
  // Marks bitset_<field> iff mark.
  bool (*write)(Graph& g, uint32_t lid, const uint64_t* w, bool mark);
  galois::DynamicBitSet* bitset;
  // syncSubstrate->sync<W, R, Reduce_<red>_<field>, Bitset_<field> | InvalidBitsetFnTy, async>(loop)
  void (*sync)(Substrate& s, unsigned W, unsigned R, bool useBitset, bool async, const std::string& loop);
  // syncSubstrate->reset_mirrorField<Reduce_<red>_<field>>()
  void (*resetMirrors)(Substrate& s);
};

enum FieldId : unsigned { F_MIN = 0, F_MAX, F_ADD, F_SUM, F_SET, F_VEC, A_MIN, A_ADD, A_SET, NUM_FIELDS };
extern const FieldVT vt_f_min, vt_f_max, vt_f_add, vt_f_sum, vt_f_set, vt_f_vec, vt_a_min, vt_a_add, vt_a_set;
inline const FieldVT& fieldVT(unsigned f) {
  static const FieldVT* t[] = {&vt_f_min, &vt_f_max, &vt_f_add, &vt_f_sum, &vt_f_set,
                               &vt_f_vec, &vt_a_min, &vt_a_add, &vt_a_set};
  return *t[f];
}

inline const char* wlocName(unsigned w) { return w == 0 ? "writeSource" : w == 1 ? "writeDestination" : "writeAny"; }
inline const char* rlocName(unsigned r) { return r == 0 ? "readSource" : r == 1 ? "readDestination" : "readAny"; }

} // namespace c18
