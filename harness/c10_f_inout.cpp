// C10 flavours: directed MorphGraph with in-edges (shared edge-data cell), plain and sorted neighbours.
#include "galois/graphs/MorphGraph.h"
#include "c10_graph.h"
using namespace c10;
typedef galois::graphs::MorphGraph<ND, uint64_t, true, true, false, false> GInOut;
typedef galois::graphs::MorphGraph<ND, uint64_t, true, true, false, true> GInOutSorted;
C10_FLAVOUR(inout, "inout", "inout", F_INOUT, GInOut)
C10_FLAVOUR(inouts, "inout-sorted", "inout", F_INOUT | F_SORTED, GInOutSorted)
