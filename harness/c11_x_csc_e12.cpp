// C11 full template matrix (c11_graphs_full only): LC_CSR_CSC_Graph<E12> x {by value, shared} x options
#include "c11_fam_csc.h"

namespace c11 {
void registerX_csc_e12() {
  regCscFull<E12>();
}
} // namespace c11
