// C09: large NUMA allocations - largeMalloc{Local,Floating,Interleaved,Blocked,Specified},
// SerialNumaAllocator<T> (direct and under std::vector) and LargeArray<T> with all
// placements, moves, swaps, deallocate.
#include "c09_engine.h"

#include "galois/LargeArray.h"
#include "galois/substrate/NumaMem.h"

using namespace c09;
namespace gr = galois::runtime;
namespace gs = galois::substrate;

namespace {

template <unsigned N>
struct Blob {
  unsigned char d[N];
};

size_t roundUp2M(size_t b) { return (b + PAGE2M - 1) / PAGE2M * PAGE2M; }

size_t largeSize(Rng& rng, size_t maxBytes) {
  size_t s;
  switch (rng.below(6)) {
  case 0: s = 1 + rng.below(70000); break;
  case 1: {
    size_t k = 1 + rng.below(4);
    long d   = (long)rng.pick({-4097, -4096, -9, -8, -1, 0, 0, 1, 8, 4096, 4097});
    s        = (size_t)((long)(k * PAGE2M) + d);
  } break;
  case 2: s = 1 + rng.below(maxBytes); break;
  default: s = boundarySize(rng, maxBytes, 23); break;
  }
  return std::max<size_t>(1, std::min(s, maxBytes));
}

// ------------------------------------------------------------------ largeMalloc*
struct LargeMallocA : Adapter {
  uint64_t perVariant[6] = {}, pageAligned = 0, zeroReq = 0;
  unsigned activeT        = 1;
  std::mutex m;
  LargeMallocA() {
    comp         = "largeMalloc";
    pageSized    = true;
    threadSafe   = true; // Local / Floating only (the others run the thread pool and are main-thread operations)
    liveCap      = 14;
    liveBytesCap = 56u << 20;
  }
  void setup(CaseCtx& c, Rng&, bool, unsigned nthreads) override {
    c.extent = EXT_WITHIN_MAPPING;
    activeT  = nthreads;
  }
  Req next(Rng& rng, bool storm) override {
    Req r;
    r.aux      = (uint32_t)rng.below(storm ? 2 : 6);
    r.mainOnly = r.aux >= 2;
    r.size     = largeSize(rng, storm ? (3u << 20) : (9u << 20));
    if (!storm && rng.below(40) == 0)
      r.size = 0;
    return r;
  }
  size_t cost(const Req& r) override { return roundUp2M(std::max<size_t>(r.size, 1)); }
  void alloc(CaseCtx& c, const Req& r, int tid, std::vector<Blk>& out) override {
    gs::LAptr ptr;
    const char* how = "";
    // numThreads is an explicit argument of the API: any 1..active
    unsigned nt = 1 + (unsigned)((r.size * 2654435761u) % activeT);
    switch (r.aux) {
    case 0:
      ptr = gs::largeMallocLocal(r.size);
      how = "largeMallocLocal";
      break;
    case 1:
      ptr = gs::largeMallocFloating(r.size);
      how = "largeMallocFloating";
      break;
    case 2:
      ptr = gs::largeMallocInterleaved(r.size, nt);
      how = "largeMallocInterleaved";
      break;
    case 3:
      ptr = gs::largeMallocBlocked(r.size, nt);
      how = "largeMallocBlocked";
      break;
    default: {
      // element distribution among nt threads (prefix sums, last == number of elements)
      size_t es    = (size_t)(1 + (r.size % 3) * 7 + (r.size % 2)); // 1,2,8,9,15,16
      size_t nelem = r.size / es;
      if (r.aux == 4 && nelem > 0xfffffff0u)
        nelem = 0xfffffff0u;
      uint64_t x = r.size * 0x9E3779B97F4A7C15ULL;
      if (r.aux == 4) {
        std::vector<uint32_t> ranges(nt + 1, 0);
        for (unsigned t = 1; t <= nt; ++t) {
          x         = splitmix64(x);
          ranges[t] = (uint32_t)std::min<uint64_t>(nelem, ranges[t - 1] + (x % (2 * nelem / nt + 1)));
        }
        ranges[nt] = (uint32_t)nelem;
        ptr        = gs::largeMallocSpecified(r.size, nt, ranges, es);
        how        = "largeMallocSpecified<uint32_t>";
      } else {
        std::vector<uint64_t> ranges(nt + 1, 0);
        for (unsigned t = 1; t <= nt; ++t) {
          x         = splitmix64(x);
          ranges[t] = std::min<uint64_t>(nelem, ranges[t - 1] + (x % (2 * nelem / nt + 1)));
        }
        ranges[nt] = nelem;
        ptr        = gs::largeMallocSpecified(r.size, nt, ranges, es);
        how        = "largeMallocSpecified<uint64_t>";
      }
    }
    }
    void* p = ptr.get();
    {
      std::lock_guard<std::mutex> lg(m);
      perVariant[r.aux]++;
      if (p && ((uintptr_t)p % 4096) == 0)
        ++pageAligned;
      if (!r.size)
        ++zeroReq;
    }
    Blk b    = onAlloc(c, p, r.size, align, r.aux, tid, how);
    b.handle = new gs::LAptr(std::move(ptr));
    if (!b.ok()) {
      // zero bytes requested, or reported: keep nothing (zero-size: releasing a null LAptr is a no-op)
      if (!r.size) {
        delete (gs::LAptr*)b.handle;
        b.handle = nullptr;
      }
    }
    out.push_back(b);
  }
  void dealloc(CaseCtx& c, Blk& b, int) override {
    beforeFree(c, b);
    delete (gs::LAptr*)b.handle; // munmap
  }
  Req reqForClass(int) override {
    Req r;
    r.size = PAGE2M;
    return r;
  }
  void addObs(J& j) override {
    j.kv("large_local", perVariant[0]).kv("large_floating", perVariant[1]).kv("large_interleaved", perVariant[2])
        .kv("large_blocked", perVariant[3]).kv("large_specified", perVariant[4] + perVariant[5])
        .kv("large_os_page_aligned", pageAligned).kv("large_zero_byte_requests", zeroReq);
  }
  std::string sigPart() override {
    std::string s = "v";
    for (unsigned i = 0; i < 6; ++i)
      s += perVariant[i] ? "1" : "0";
    return s;
  }
};

// ------------------------------------------------------------------ SerialNumaAllocator
struct SerialNumaA : Adapter {
  uint64_t direct = 0, viaVector = 0;
  SerialNumaA() {
    comp         = "SerialNumaAllocator";
    liveCap      = 10;
    liveBytesCap = 40u << 20;
  }
  void setup(CaseCtx& c, Rng&, bool, unsigned) override { c.extent = EXT_WITHIN_MAPPING; }
  Req next(Rng& rng, bool) override {
    Req r;
    r.aux      = (uint32_t)rng.below(4); // char, uint64_t, Blob<24>, std::vector<uint64_t, SerialNumaAllocator>
    r.mainOnly = true;                   // "Serial": pages in through the thread pool
    size_t bytes = largeSize(rng, 5u << 20);
    size_t es    = r.aux == 0 ? 1 : r.aux == 2 ? 24 : 8;
    r.size       = std::max<size_t>(1, (bytes + es - 1) / es) * es;
    return r;
  }
  size_t cost(const Req& r) override { return roundUp2M(r.size + 16); }
  void alloc(CaseCtx& c, const Req& r, int tid, std::vector<Blk>& out) override {
    void* p;
    void* handle = nullptr;
    switch (r.aux) {
    case 0: {
      gr::SerialNumaAllocator<char> a;
      p = a.allocate(r.size);
      ++direct;
    } break;
    case 1: {
      gr::SerialNumaAllocator<uint64_t> a;
      p = a.allocate(r.size / 8);
      ++direct;
    } break;
    case 2: {
      gr::SerialNumaAllocator<char>::rebind<Blob<24>>::other a;
      p = a.allocate(r.size / 24);
      ++direct;
    } break;
    default: {
      auto* v = new std::vector<uint64_t, gr::SerialNumaAllocator<uint64_t>>();
      v->reserve(r.size / 8);
      p      = v->data();
      handle = v;
      ++viaVector;
    }
    }
    Blk b    = onAlloc(c, p, r.size, align, r.aux, tid, "SerialNumaAllocator<T>::allocate");
    b.handle = handle;
    out.push_back(b);
  }
  void dealloc(CaseCtx& c, Blk& b, int) override {
    beforeFree(c, b);
    switch (b.aux) {
    case 0: {
      gr::SerialNumaAllocator<char> a;
      a.deallocate((char*)b.p, b.len);
    } break;
    case 1: {
      gr::SerialNumaAllocator<uint64_t> a;
      a.deallocate((uint64_t*)b.p, b.len / 8);
    } break;
    case 2: {
      gr::SerialNumaAllocator<Blob<24>> a;
      a.deallocate((Blob<24>*)b.p, b.len / 24);
    } break;
    default: delete (std::vector<uint64_t, gr::SerialNumaAllocator<uint64_t>>*)b.handle;
    }
  }
  void addObs(J& j) override { j.kv("serialnuma_direct", direct).kv("serialnuma_via_vector", viaVector); }
  std::string sigPart() override { return std::string("d") + bucket(direct) + "v" + bucket(viaVector); }
};

// ------------------------------------------------------------------ LargeArray<T>
enum Placement { INTERLEAVED, BLOCKED, LOCAL, FLOATING, SPECIFIED32, SPECIFIED64, CREATE, NPLACE };
const char* PLACE[] = {"allocateInterleaved", "allocateBlocked", "allocateLocal", "allocateFloating",
                       "allocateSpecified<u32>", "allocateSpecified<u64>", "create"};

struct LABase {
  Blk blk;
  unsigned type = 0;
  virtual ~LABase() {}
  virtual void allocate(Placement pl, size_t n, unsigned activeT, uint64_t seed) = 0;
  virtual void* data()                 = 0;
  virtual size_t bytes()               = 0;
  virtual size_t size()                = 0;
  virtual bool consistent()            = 0; // begin/end/size/data agree
  virtual LABase* moveConstruct()      = 0;
  virtual void moveAssignFrom(LABase&) = 0;
  virtual void swapWith(LABase&)       = 0;
  virtual void deallocate()            = 0;
  virtual bool scalar()                = 0;
};
template <typename T>
struct LAImpl : LABase {
  galois::LargeArray<T> a;
  LAImpl() {}
  explicit LAImpl(galois::LargeArray<T>&& o) : a(std::move(o)) {}
  void allocate(Placement pl, size_t n, unsigned activeT, uint64_t seed) override {
    switch (pl) {
    case INTERLEAVED: a.allocateInterleaved(n); break;
    case BLOCKED: a.allocateBlocked(n); break;
    case LOCAL: a.allocateLocal(n); break;
    case FLOATING: a.allocateFloating(n); break;
    case SPECIFIED32: {
      std::vector<uint32_t> r(activeT + 1, 0);
      uint64_t x = seed;
      for (unsigned t = 1; t <= activeT; ++t)
        r[t] = (uint32_t)std::min<uint64_t>(n, r[t - 1] + splitmix64(x) % (2 * n / activeT + 1));
      r[activeT] = (uint32_t)n;
      a.allocateSpecified(n, r);
    } break;
    case SPECIFIED64: {
      std::vector<uint64_t> r(activeT + 1, 0);
      uint64_t x = seed;
      for (unsigned t = 1; t <= activeT; ++t)
        r[t] = std::min<uint64_t>(n, r[t - 1] + splitmix64(x) % (2 * n / activeT + 1));
      r[activeT] = n;
      a.allocateSpecified(n, r);
    } break;
    default: a.create(n); break; // allocateInterleaved + construct
    }
    if (pl != CREATE && (seed & 1))
      a.construct();
  }
  void* data() override { return a.data(); }
  size_t bytes() override { return a.size() * sizeof(T); }
  size_t size() override { return a.size(); }
  bool consistent() override {
    return a.begin() == a.data() && a.end() == a.data() + a.size() && (a.size() == 0 || &a[a.size() - 1] == a.data() + a.size() - 1) &&
           (a.size() == 0 || &a.at(0) == a.data());
  }
  LABase* moveConstruct() override {
    auto* n = new LAImpl(std::move(a));
    n->type = type;
    return n;
  }
  void moveAssignFrom(LABase& o) override { a = std::move(static_cast<LAImpl&>(o).a); }
  void swapWith(LABase& o) override { swap(a, static_cast<LAImpl&>(o).a); }
  void deallocate() override { a.deallocate(); }
  bool scalar() override { return std::is_scalar<T>::value; }
};
struct LAFactory {
  size_t es;
  LABase* (*mk)();
};
template <typename T>
LAFactory mkLA() {
  return LAFactory{sizeof(T), []() -> LABase* { return new LAImpl<T>(); }};
}
const LAFactory LAF[] = {mkLA<uint8_t>(), mkLA<uint32_t>(), mkLA<uint64_t>(), mkLA<double>(), mkLA<Blob<24>>(), mkLA<Blob<3>>()};
const unsigned NLAF   = sizeof(LAF) / sizeof(LAF[0]);

CaseResult largeArrayCase(Harness& H, long k, Rng& rng, bool) {
  CaseCtx c(H, "LargeArray");
  c.extent       = EXT_WITHIN_MAPPING;
  unsigned maxT  = c.maxT;
  unsigned activeT = 1 + (unsigned)rng.below(maxT);
  unsigned nops  = H.thorough ? (unsigned)rng.pick({30, 80, 200}) : (unsigned)rng.pick({15, 40, 90});
  nops           = (unsigned)std::min<long>(nops, H.paramInt("maxops", 1000000));
  H.begin(k, J().kv("component", "LargeArray").kv("mode", "serial").kv("ops", nops).kv("activeThreads", activeT).kv("maxT", maxT)
                 .kv("sockets", c.nsock).str());
  galois::setActiveThreads(activeT);
  std::vector<LABase*> live;
  size_t liveBytes = 0;
  uint64_t perPlace[NPLACE] = {}, moves = 0, swaps = 0, deallocs = 0, pageAligned = 0, inconsistent = 0, emptyArrays = 0;
  const size_t CAP = 48u << 20;

  auto track = [&](LABase* a, const char* how) {
    a->blk = onAlloc(c, a->data(), a->bytes(), 8, a->type, -1, how);
    if (a->data() && ((uintptr_t)a->data() % 4096) == 0)
      ++pageAligned;
    if (!a->consistent()) {
      ++inconsistent;
      c.report(c.key("accessors-disagree"), J().kv("how", how).kv("size", a->size()).str());
    }
  };
  auto drop = [&](size_t idx, int tid) {
    LABase* a = live[idx];
    live[idx] = live.back();
    live.pop_back();
    liveBytes -= std::min(liveBytes, roundUp2M(a->bytes()));
    beforeFree(c, a->blk);
    // ~LargeArray runs ParallelSTL::destroy (a do_all) for class types: main thread only
    runOn(a->scalar() ? tid : -1, [&] { delete a; });
    ++deallocs;
  };
  for (unsigned step = 0; step < nops && !c.poisoned.load() && c.perKey.size() <= 8; ++step) {
    unsigned x = (unsigned)rng.below(100);
    int tid    = rng.below(2) ? -1 : (int)rng.below(activeT);
    if (x < 40) {
      unsigned ty  = (unsigned)rng.below(NLAF);
      size_t bytes = largeSize(rng, 7u << 20);
      size_t n     = std::max<size_t>(1, bytes / LAF[ty].es);
      if (rng.below(30) == 0)
        n = 0;
      if (live.size() < 12 && liveBytes + roundUp2M(n * LAF[ty].es) <= CAP) {
        Placement pl = (Placement)rng.below(NPLACE);
        LABase* a    = LAF[ty].mk();
        a->type      = ty;
        a->allocate(pl, n, activeT, rng.next());
        perPlace[pl]++;
        if (!n)
          ++emptyArrays;
        track(a, PLACE[pl]);
        if (a->blk.ok() || !n) {
          live.push_back(a);
          liveBytes += roundUp2M(a->bytes());
        } // else reported: leaked, never touched
      } else if (!live.empty())
        drop(rng.below(live.size()), tid);
    } else if (x < 62) {
      if (!live.empty())
        drop(rng.below(live.size()), tid);
    } else if (x < 72) {
      if (!live.empty()) { // move construction: the block travels with the object
        size_t idx = rng.below(live.size());
        LABase* a  = live[idx];
        void* before = a->data();
        LABase* n  = a->moveConstruct();
        n->blk     = a->blk;
        a->blk.id  = 0;
        if (n->data() != before || a->data() != nullptr || a->size() != 0)
          c.report(c.key("move-changed-address"), J().kv("before", hexp(before)).kv("after", hexp(n->data())).str());
        delete a; // empty
        live[idx] = n;
        ++moves;
      }
    } else if (x < 82) {
      // swap / move-assign between two arrays of the same element type
      bool done = false;
      for (size_t i = 0; i < live.size() && !done; ++i)
        for (size_t j = i + 1; j < live.size() && !done; ++j)
          if (live[i]->type == live[j]->type) {
            void *pi = live[i]->data(), *pj = live[j]->data();
            if (rng.below(2))
              live[i]->swapWith(*live[j]);
            else
              live[i]->moveAssignFrom(*live[j]); // implemented as a swap of all members
            std::swap(live[i]->blk, live[j]->blk);
            if (live[i]->data() != pj || live[j]->data() != pi)
              c.report(c.key("move-changed-address"), J().kv("what", "swap/move-assign").str());
            ++swaps;
            done = true;
          }
    } else if (x < 90) {
      if (!live.empty()) { // explicit deallocate(); the object stays and can be allocated again
        size_t idx = rng.below(live.size());
        LABase* a  = live[idx];
        liveBytes -= std::min(liveBytes, roundUp2M(a->bytes()));
        beforeFree(c, a->blk);
        a->deallocate();
        ++deallocs;
        if (a->data() != nullptr || a->size() != 0)
          c.report(c.key("accessors-disagree"), J().kv("how", "after deallocate()").str());
        size_t n = 1 + rng.below(300000);
        if (liveBytes + roundUp2M(n * LAF[a->type].es) <= CAP) {
          Placement pl = (Placement)rng.below(NPLACE);
          a->allocate(pl, n, activeT, rng.next());
          perPlace[pl]++;
          track(a, PLACE[pl]);
          liveBytes += roundUp2M(a->bytes());
        }
        if (!a->blk.ok() && a->size()) { // reported
          live[idx] = live.back();
          live.pop_back();
        }
      }
    } else {
      c.quiescentChecks.fetch_add(1, std::memory_order_relaxed);
      for (auto* a : live)
        checkCanary(c, a->blk, "quiescent");
    }
    progress();
  }
  for (auto* a : live)
    checkCanary(c, a->blk, "final");
  while (!live.empty())
    drop(live.size() - 1, rng.below(2) ? -1 : (int)rng.below(activeT));
  c.flush();
  CaseResult R;
  R.nontrivial = c.maxLive.load() >= 2 && c.frees.load() >= 1;
  std::string pv;
  for (unsigned i = 0; i < NPLACE; ++i)
    pv += perPlace[i] ? "1" : "0";
  R.sig = "LargeArray|serial|p" + pv + "|mv" + bucket(moves + swaps) + "|act" + std::to_string(activeT) + "|live" + bucket(c.maxLive.load());
  J obs;
  commonObs(obs, c).kv("serial_cases", 1).kv("largearray_interleaved", perPlace[INTERLEAVED] + perPlace[CREATE])
      .kv("largearray_blocked", perPlace[BLOCKED]).kv("largearray_local", perPlace[LOCAL]).kv("largearray_floating", perPlace[FLOATING])
      .kv("largearray_specified", perPlace[SPECIFIED32] + perPlace[SPECIFIED64]).kv("largearray_moves", moves)
      .kv("largearray_swaps", swaps).kv("largearray_deallocs", deallocs).kv("large_os_page_aligned", pageAligned)
      .kv("largearray_empty", emptyArrays).kv("max_live", c.maxLive.load());
  R.obs = obs.str();
  return R;
}

template <typename A>
CaseResult runWith(Harness& H, long k, Rng& rng, bool storm) {
  A a;
  return storm ? runStorm(H, k, rng, a) : runSerial(H, k, rng, a);
}

Register r1("largeMalloc", runWith<LargeMallocA>, 7, 3);
Register r2("SerialNumaAllocator", runWith<SerialNumaA>, 4, 0);
Register r3("LargeArray", largeArrayCase, 8, 0);

} // namespace
