// C11: drivers shared by the graphs whose node handle is not the node id
// (LC_Linear_Graph, LC_InlineEdge_Graph, LC_Morph_Graph, LC_InOut_Graph over
// them, LC_Adaptor_Graph). Node identity = position in begin()..end().
#pragma once
#include "c11_common.h"

namespace c11 {

template <class G, bool HasSize = true, bool HasEdgesFn = true>
bool verifyPtr(Ctx& c, G& g, const ref::RefGraph& want, bool ordered, const char* what, Indexer<G>* ixOut = nullptr) {
  Indexer<G> ixLocal;
  Indexer<G>& ix = ixOut ? *ixOut : ixLocal;
  ix.build(g, want.numNodes + 8);
  if (!ix.orderOk) {
    c.fail(std::string(what) + "-node-order", J().kv("nodes", want.numNodes).str());
    return false;
  }
  Obs o;
  if constexpr (HasSize) {
    o.size      = g.size();
    o.sizeEdges = g.sizeEdges();
  }
  observeOut(g, ix, o, c.rng.below(2) ? galois::MethodFlag::UNPROTECTED : galois::MethodFlag::WRITE);
  if (!checkCounts(c, o, want, what, HasSize, HasSize))
    return false;
  if (!(ordered ? checkOrdered(c, o, want, what) : checkMultiset(c, o, want, what)))
    return false;
  checkEdgeRanges<G, HasEdgesFn>(c, g, ix);
  checkLocalRanges(c, g, ix);
  return !c.failed;
}

} // namespace c11
