// instantiation helper: one translation unit per group of kinds
#pragma once
#include "c03_common.h"
#include <boost/iterator/counting_iterator.hpp>

namespace c03 {

struct Data {
  std::vector<uint32_t> vec;      // values base..base+n-1 (plus extra elements outside the sub-range)
  std::deque<uint32_t> deq;
  std::list<uint32_t> lst;
  std::forward_list<uint32_t> fwd;
  galois::InsertBag<uint32_t>* bag = nullptr;
  std::vector<uint32_t> threadRanges; // SpecificRange: size threads+1
  uint32_t subBegin = 0, subEnd = 0;  // K_SUBRANGE: [vec.begin()+subBegin, vec.begin()+subEnd)
  uint32_t specBegin = 0, specEnd = 0; // K_SPECIFIC: global begin/end (may clip the thread ranges)
};

template <unsigned KIND, unsigned CS, bool ST>
void runKind(Case& c, const void* dv) {
  Data& d = *(Data*)dv;
  if constexpr (KIND == K_POINTER) {
    uint32_t* b = d.vec.data();
    doAll<decltype(galois::iterate(b, b)), CS, ST>(c, galois::iterate(b, b + c.n));
  } else if constexpr (KIND == K_VECTOR) {
    doAll<decltype(galois::iterate(d.vec)), CS, ST>(c, galois::iterate(d.vec));
  } else if constexpr (KIND == K_DEQUE) {
    doAll<decltype(galois::iterate(d.deq)), CS, ST>(c, galois::iterate(d.deq));
  } else if constexpr (KIND == K_LIST) {
    doAll<decltype(galois::iterate(d.lst)), CS, ST>(c, galois::iterate(d.lst));
  } else if constexpr (KIND == K_FWDLIST) {
    doAll<decltype(galois::iterate(d.fwd)), CS, ST>(c, galois::iterate(d.fwd));
  } else if constexpr (KIND == K_COUNT_U32) {
    uint32_t b = c.base, e = c.base + c.n;
    doAll<decltype(galois::iterate(b, e)), CS, ST>(c, galois::iterate(b, e));
  } else if constexpr (KIND == K_COUNT_I64) {
    int64_t b = c.base, e = (int64_t)c.base + c.n;
    doAll<decltype(galois::iterate(b, e)), CS, ST>(c, galois::iterate(b, e));
  } else if constexpr (KIND == K_COUNT_U16) {
    uint16_t b = (uint16_t)c.base, e = (uint16_t)(c.base + c.n);
    doAll<decltype(galois::iterate(b, e)), CS, ST>(c, galois::iterate(b, e));
  } else if constexpr (KIND == K_INSERTBAG) {
    doAll<decltype(galois::iterate(*d.bag)), CS, ST>(c, galois::iterate(*d.bag));
  } else if constexpr (KIND == K_SPECIFIC) {
    typedef boost::counting_iterator<uint32_t> It;
    auto r = galois::runtime::makeSpecificRange(It(d.specBegin), It(d.specEnd), d.threadRanges.data());
    doAll<decltype(galois::iterate(r)), CS, ST>(c, galois::iterate(r));
  } else if constexpr (KIND == K_SUBRANGE) {
    auto b = d.vec.begin() + d.subBegin, e = d.vec.begin() + d.subEnd;
    doAll<decltype(galois::iterate(b, e)), CS, ST>(c, galois::iterate(b, e));
  }
}

template <unsigned KIND>
RunFn lookupKind(bool steal, unsigned ci) {
  if (!steal)
    return &runKind<KIND, 32, false>;
  switch (ci) {
  case 0: return &runKind<KIND, 1, true>;
  case 1: return &runKind<KIND, 2, true>;
  case 2: return &runKind<KIND, 3, true>;
  case 3: return &runKind<KIND, 64, true>;
  default: return &runKind<KIND, 4096, true>;
  }
}
RunFn lookupA(unsigned kind, bool steal, unsigned ci);
RunFn lookupB(unsigned kind, bool steal, unsigned ci);
RunFn lookupC(unsigned kind, bool steal, unsigned ci);
} // namespace c03
