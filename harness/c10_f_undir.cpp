// C10 flavours: undirected MorphGraph (symmetric entries sharing the edge-data cell), plain and sorted neighbours.
#include "galois/graphs/MorphGraph.h"
#include "c10_graph.h"
using namespace c10;
typedef galois::graphs::MorphGraph<ND, uint64_t, false, false, false, false> GUndir;
typedef galois::graphs::MorphGraph<ND, uint64_t, false, false, false, true> GUndirSorted;
C10_FLAVOUR(undir, "undirected", "undirected", F_UNDIRECTED, GUndir)
C10_FLAVOUR(undirs, "undirected-sorted", "undirected", F_UNDIRECTED | F_SORTED, GUndirSorted)
