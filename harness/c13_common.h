// C13 — shared helpers of the work-division harnesses (c13_blocks, c13_graphdiv, c13_dist).
#pragma once
#include "verif.h"
#include "c13_tiling.h"

#include <algorithm>
#include <set>
#include <string>
#include <vector>

namespace c13 {
using namespace verif;
using c13ref::pos_t;
using c13ref::Tiling;

// Per-case accumulator: measured counters + violation throttling.
struct Acc {
  Harness& H;
  std::string component;
  uint64_t calls               = 0; // every individual call of a routine under test
  uint64_t divisions           = 0; // (input, part count) divisions fully checked
  uint64_t multi_piece         = 0; // divisions that returned >= 2 non-empty pieces
  uint64_t exhaustive_triples  = 0; // (input, parts, index) triples of exhaustively enumerated sub-spaces
  uint64_t empty_pieces        = 0;
  uint64_t more_parts_than_elems = 0; // divisions with parts > elements
  uint64_t zero_size_inputs    = 0;
  uint64_t sampled_divisions   = 0; // divisions where only a subset of part indices was fed (2^32 parts)
  uint64_t violations_total    = 0;
  uint64_t violations_suppressed = 0;
  std::set<std::string> emitted;
  std::map<std::string, uint64_t> extra; // named counters

  Acc(Harness& h, const std::string& comp) : H(h), component(comp) {}

  // report once per key per case; the rest is counted
  void violation(const std::string& kind, const std::string& cls, const std::string& detailJson) {
    ++violations_total;
    std::string key = "C13:" + component + ":" + kind;
    if (!cls.empty())
      key += ":" + cls;
    if (emitted.insert(key).second)
      H.violation(key, detailJson);
    else
      ++violations_suppressed;
  }

  // account one finished division
  void finishDivision(Tiling& t, uint64_t elems, bool exhaustive, const std::string& cls,
                      const std::function<std::string()>& witness) {
    c13ref::Kind k = t.finish();
    ++divisions;
    if (t.nonEmpty >= 2)
      ++multi_piece;
    empty_pieces += t.fed - t.nonEmpty;
    if (t.nparts > elems)
      ++more_parts_than_elems;
    if (elems == 0)
      ++zero_size_inputs;
    if (t.fed != t.nparts)
      ++sampled_divisions;
    if (exhaustive)
      exhaustive_triples += t.fed;
    if (k != c13ref::HELD)
      violation(c13ref::kind_name(k), cls, J().kv("what", t.describe()).raw("input", witness()).str());
    if ((divisions & 0x3ff) == 0)
      progress();
  }

  std::string obs() const {
    J j;
    j.kv("calls", calls).kv("divisions", divisions).kv("multi_piece_divisions", multi_piece)
        .kv("exhaustive_triples", exhaustive_triples).kv("empty_pieces", empty_pieces)
        .kv("more_parts_than_elems", more_parts_than_elems).kv("zero_size_inputs", zero_size_inputs)
        .kv("sampled_divisions", sampled_divisions).kv("oracle_violations", violations_total)
        .kv("violations_suppressed", violations_suppressed);
    for (auto& kv : extra)
      j.kv(kv.first.c_str(), kv.second);
    return j.str();
  }
  bool nontrivial() const { return multi_piece > 0; }
};

// log-uniform in [1, max]
inline uint64_t logUniform(Rng& r, uint64_t max) {
  if (max <= 1)
    return 1;
  unsigned bits = 64 - __builtin_clzll(max);
  unsigned b    = 1 + (unsigned)r.below(bits);
  uint64_t v    = b >= 64 ? r.next() : (r.next() & ((1ULL << b) - 1));
  v |= b >= 64 ? (1ULL << 63) : (1ULL << (b - 1));
  return v > max ? max : v;
}

// ------------------------------------------------------------- degree vectors
static const char* DIST_NAMES[] = {"uniform", "zero-heavy", "one-hub-first", "one-hub-mid", "one-hub-last",
                                   "all-zero", "power-law", "constant", "zero-tail", "zero-head", "huge"};
constexpr unsigned NDIST = 11;

// degrees for n nodes following distribution d; maxDeg bounds ordinary degrees
inline std::vector<uint64_t> genDegrees(Rng& r, unsigned d, size_t n, uint64_t maxDeg) {
  std::vector<uint64_t> deg(n, 0);
  if (!n)
    return deg;
  switch (d) {
  case 0:
    for (auto& x : deg) x = r.below(maxDeg + 1);
    break;
  case 1:
    for (auto& x : deg) x = r.chance(1, 6) ? 1 + r.below(maxDeg + 1) : 0;
    break;
  case 2: deg[0] = 1 + r.below(maxDeg * n + 1); break;
  case 3: deg[n / 2] = 1 + r.below(maxDeg * n + 1); break;
  case 4: deg[n - 1] = 1 + r.below(maxDeg * n + 1); break;
  case 5: break;
  case 6:
    for (auto& x : deg) {
      double u = r.unit();
      x        = (uint64_t)(1.0 / (0.0001 + u * u * u)) % (maxDeg * 50 + 1);
      if (r.chance(1, 3)) x = 0;
    }
    break;
  case 7: {
    uint64_t c = r.below(maxDeg + 1);
    for (auto& x : deg) x = c;
    break;
  }
  case 8: { // edges only on a prefix of the nodes
    size_t k = (size_t)r.below(n + 1);
    for (size_t i = 0; i < k; ++i) deg[i] = r.below(maxDeg + 1);
    break;
  }
  case 9: { // edges only on a suffix
    size_t k = (size_t)r.below(n + 1);
    for (size_t i = k; i < n; ++i) deg[i] = r.below(maxDeg + 1);
    break;
  }
  case 10: // huge degrees (prefix sums are just numbers): exercises 64-bit arithmetic
    for (auto& x : deg) x = r.chance(1, 3) ? 0 : logUniform(r, 1ULL << 36);
    break;
  }
  return deg;
}

// the d-th degree vector of length n over the alphabet {0,1,2,5} (d in [0,4^n))
inline void nthSmallDegrees(uint64_t d, unsigned n, std::vector<uint64_t>& deg) {
  static const uint64_t A[4] = {0, 1, 2, 5};
  deg.resize(n);
  for (unsigned i = 0; i < n; ++i) {
    deg[i] = A[d & 3];
    d >>= 2;
  }
}

inline std::vector<uint64_t> prefixOf(const std::vector<uint64_t>& deg) {
  std::vector<uint64_t> p(deg.size());
  uint64_t c = 0;
  for (size_t i = 0; i < deg.size(); ++i) {
    c += deg[i];
    p[i] = c;
  }
  return p;
}

inline const char* sizeBucket(uint64_t n) {
  if (n == 0) return "0";
  if (n < 10) return "1e0";
  if (n < 100) return "1e1";
  if (n < 1000) return "1e2";
  if (n < 10000) return "1e3";
  if (n < 1000000) return "1e4-5";
  if (n < (1ULL << 32)) return "1e6-9";
  if (n < (1ULL << 48)) return "2^32-48";
  return "2^48+";
}

} // namespace c13
