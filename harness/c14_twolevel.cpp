// C14 — two-level iterators over ragged outer containers:
//   TwoLevelIterator.h   stl_two_level_{begin,cbegin,rbegin,crbegin}/..end (ChooseStlTwoLevelIterator)
//   TwoLevelIteratorA.h  make_two_level_iterator<Tag>
// Model: the flattened sequence. The oracle compares *addresses* (&*it against
// the address of the expected element), so a mispositioned iterator is
// reported without reading through it. A case is one random shape (outer
// length 0..8, inner lengths 0..9 with many empties) and a random walk of
// iterator operations (++ -- += -= + - [] < distance advance).
#include "c14_common.h"

#include "galois/TwoLevelIterator.h"
#include "galois/TwoLevelIteratorA.h"

#include <deque>
#include <forward_list>
#include <iterator>
#include <list>

namespace c14 {
namespace {

// compile-time capabilities of the iterator flavour under test
template <bool Bidir, bool Jumps, bool Diff, bool Bracket>
struct Flags {
  static constexpr bool bidir   = Bidir;   // -- is available
  static constexpr bool jumps   = Jumps;   // += -= + - [] are available (random access flavour)
  static constexpr bool diff    = Diff;    // it2 - it1 and < between arbitrary positions
  static constexpr bool bracket = Bracket; // operator[] returns a real reference
};

template <typename D>
D build(Case& c, unsigned& total) {
  typedef typename D::value_type Inner;
  Rng& rng    = c.rng;
  unsigned no = (unsigned)rng.below(9);
  std::vector<Inner> tmp(no);
  total = 0;
  for (auto& in : tmp) {
    unsigned n = rng.pick({0u, 0u, 0u, 1u, 1u, 2u, 3u, 4u, 5u, 9u, 9u, 33u});
    for (unsigned i = 0; i < n; ++i)
      in.push_back(c.nextVal());
    total += n;
  }
  return D(tmp.begin(), tmp.end());
}

template <typename D>
std::vector<const int*> flatten(const D& d) {
  std::vector<const int*> f;
  for (auto& in : d)
    for (auto& x : in)
      f.push_back(&x);
  return f;
}

// Is `it` at position p? First compared (operator==, no dereference) with a reference iterator that was stepped
// there from begin() with ++ only; only an iterator that is equal to the reference is dereferenced, so a
// mispositioned iterator is reported without reading through it.
template <typename It>
bool at(Case& c, const char* what, const It& it, const It& b, const It& e, const std::vector<const int*>& flat,
        size_t p, const std::vector<It>* refs = nullptr) {
  ++c.resultChecks;
  if (c.bad)
    return false;
  bool isEnd = it == e;
  bool ok    = (p == flat.size()) == isEnd;
  if (ok && refs)
    ok = it == (*refs)[p];
  if (ok && !isEnd)
    ok = &*it == flat[p];
  if (ok && (p == 0) != (it == b))
    ok = false;
  if (!ok) {
    long where = -1;
    if (refs) {
      for (size_t i = 0; i < refs->size(); ++i)
        if (it == (*refs)[i])
          where = (long)i;
    }
    c.fail(what, J().kv("expected_position", (uint64_t)p).kv("equals_reference_iterator_at_position_or_-1", where)
                     .kv("sequence_length", (uint64_t)flat.size()).kv("compares_equal_to_end", isEnd));
  }
  ++c.visited;
  return ok;
}

// random walk; `rev`: the flat sequence is already in the order the iterator is expected to visit
// backJumps: backward jumps of more than one step are exercised
template <typename F, typename It>
void walk(Case& c, It b, It e, const std::vector<const int*>& flat, bool backJumps, unsigned nops) {
  Rng& rng = c.rng;
  size_t n = flat.size(), p = 0;
  // full forward pass (dereferences only while the length is as expected); keeps a reference iterator per position
  std::vector<It> refs;
  {
    c.op("forward-pass");
      c.checking("position");
    It it = b;
    size_t i = 0;
    for (; i <= n && !c.bad; ++i) {
      if (!at(c, "position", it, b, e, flat, i))
        break;
      refs.push_back(it);
      if (i < n)
        ++it;
    }
    ++c.checks;
  }
  if (c.bad)
    return;
  if constexpr (F::bidir) {
    if (!c.bad && n > 0) {
      c.op("backward-pass");
      c.checking("position");
      It it = e;
      for (size_t i = n; i > 0 && !c.bad;) {
        --it;
        --i;
        at(c, "position", it, b, e, flat, i, &refs);
      }
      ++c.checks;
    }
  }
  if (n == 0)
    return;
  It it = b;
  for (unsigned step = 0; step < nops && !c.bad; ++step) {
    unsigned x = (unsigned)rng.below(100);
    if (x < 15 && p < n) {
      if (rng.below(2)) {
        c.op("pre-increment");
      c.checking("position");
        ++it;
      } else {
        c.op("post-increment");
      c.checking("position");
        // (TwoLevelIterator.h: it++ returns the forward base class, so only the element is compared)
        auto old = it++;
        ++c.resultChecks;
        if (!(old == refs[p]))
          c.fail("returned-old-position", J().kv("position", (uint64_t)p));
      }
      ++p;
    } else if (x < 30 && p > 0 && F::bidir) {
      if constexpr (F::bidir) {
        if (rng.below(2)) {
          c.op("pre-decrement");
      c.checking("position");
          --it;
        } else {
          c.op("post-decrement");
      c.checking("position");
          auto old = it--;
          ++c.resultChecks;
          if (!(old == refs[p]))
            c.fail("returned-old-position", J().kv("position", (uint64_t)p));
        }
        --p;
      }
    } else if (x < 45) {
      // std::advance: forwards always, backwards when bidirectional
      long k;
      if (F::bidir && p > 0 && rng.below(2)) {
        size_t lim = (F::jumps && !backJumps) ? 1 : p;
        k          = -(long)(1 + rng.below(lim));
      } else
        k = (long)rng.below(n - p + 1);
      c.op(k < 0 ? "advance-backward" : "advance-forward", k, NOARG,
           k < -1 ? "backward-jump" : k == -1 ? "backward-step" : "forward-jump");
      c.checking("position");
      std::advance(it, k);
      p = (size_t)((long)p + k);
    } else if (x < 58 && F::jumps) {
      if constexpr (F::jumps) {
        size_t k = rng.below(n - p + 1);
        if (rng.below(2)) {
          c.op("plus-assign", (long)k, NOARG, "forward-jump");
      c.checking("position");
          it += (ptrdiff_t)k;
        } else {
          c.op("plus", (long)k, NOARG, "forward-jump");
      c.checking("position");
          it = it + (ptrdiff_t)k;
        }
        p += k;
      }
    } else if (x < 71 && F::jumps && p > 0) {
      if constexpr (F::jumps) {
        size_t lim = backJumps ? p : 1;
        size_t k   = 1 + rng.below(lim);
        if (rng.below(2)) {
          c.op("minus-assign", (long)k, NOARG, k > 1 ? "backward-jump" : "backward-step");
      c.checking("position");
          it -= (ptrdiff_t)k;
        } else {
          c.op("minus", (long)k, NOARG, k > 1 ? "backward-jump" : "backward-step");
      c.checking("position");
          it = it - (ptrdiff_t)k;
        }
        p -= k;
      }
    } else if (x < 80 && F::jumps && p < n) {
      if constexpr (F::jumps) {
        size_t k = rng.below(n - p);
        c.op("subscript", (long)k);
      c.checking("position");
        ++c.resultChecks;
        if (!((it + (ptrdiff_t)k) == refs[p + k]))
          c.fail("plus-offset-position", J().kv("position", (uint64_t)p).kv("offset", (uint64_t)k));
        else {
          const int* a;
          if constexpr (F::bracket)
            a = &it[(ptrdiff_t)k];
          else
            a = &*(it + (ptrdiff_t)k);
          if (a != flat[p + k])
            c.fail("subscript-element", J().kv("position", (uint64_t)p).kv("offset", (uint64_t)k));
        }
      }
    } else if (x < 90) {
      // distance from begin (never negative: fine for every flavour)
      c.op("distance-from-begin");
      c.checking("position");
      c.eq("distance", (long)std::distance(b, it), (long)p);
    } else if (F::diff) {
      if constexpr (F::diff) {
        size_t q = rng.below(n + 1);
        It it2   = b;
        for (size_t i = 0; i < q; ++i)
          ++it2;
        c.op("difference-and-less", (long)q);
      c.checking("position");
        c.eq("difference", (long)(it2 - it), (long)q - (long)p);
        c.eq("less", it < it2, p < q);
        c.eq("less-equal", it <= it2, p <= q);
      }
    } else {
      c.op("copy-and-compare");
      c.checking("position");
      It cp(it);
      c.eq("copy-equal", cp == it, true);
      c.eq("copy-not-unequal", cp != it, false);
    }
    at(c, "position", it, b, e, flat, p, &refs);
  }
}

template <typename Outer>
constexpr bool outerRandom() {
  return std::is_base_of<std::random_access_iterator_tag,
                         typename std::iterator_traits<Outer>::iterator_category>::value;
}
template <typename Inner>
constexpr bool innerRandom() {
  return std::is_base_of<std::random_access_iterator_tag,
                         typename std::iterator_traits<Inner>::iterator_category>::value;
}

// ------------------------------------------------------------------ TwoLevelIterator.h
template <typename D>
void stlFlavours(Case& c, unsigned flavour, unsigned nops) {
  unsigned total;
  D d              = build<D>(c, total);
  const D& cd      = d;
  auto flat        = flatten(d);
  auto rflat       = flat;
  std::reverse(rflat.begin(), rflat.end());
  c.sawSize(total, 0);
  typedef typename D::value_type Inner;
  constexpr bool ir = innerRandom<typename Inner::iterator>();
  constexpr bool orr = outerRandom<typename D::iterator>();
  typedef Flags<true, ir, ir && orr, true> F;
  switch (flavour) {
  case 0: {
    auto b = galois::stl_two_level_begin(d.begin(), d.end());
    auto e = galois::stl_two_level_end(d.begin(), d.end());
    walk<F>(c, b, e, flat, true, nops);
    break;
  }
  case 1: {
    auto b = galois::stl_two_level_cbegin(cd.begin(), cd.end());
    auto e = galois::stl_two_level_cend(cd.begin(), cd.end());
    walk<F>(c, b, e, flat, true, nops);
    break;
  }
  case 2: {
    auto b = galois::stl_two_level_rbegin(d.rbegin(), d.rend());
    auto e = galois::stl_two_level_rend(d.rbegin(), d.rend());
    walk<F>(c, b, e, rflat, true, nops);
    break;
  }
  default: {
    auto b = galois::stl_two_level_crbegin(cd.rbegin(), cd.rend());
    auto e = galois::stl_two_level_crend(cd.rbegin(), cd.rend());
    walk<F>(c, b, e, rflat, true, nops);
    break;
  }
  }
}

// ------------------------------------------------------------------ TwoLevelIteratorA.h
template <typename D, typename Tag>
void aTag(Case& c, bool constOuter, bool backJumps, unsigned nops) {
  unsigned total;
  D d         = build<D>(c, total);
  const D& cd = d;
  auto flat   = flatten(d);
  c.sawSize(total, 0);
  constexpr bool bidir = std::is_base_of<std::bidirectional_iterator_tag, Tag>::value;
  constexpr bool rnd   = std::is_base_of<std::random_access_iterator_tag, Tag>::value;
  typedef Flags<bidir, rnd, rnd, false> F;
  if (constOuter) {
    auto r = galois::make_two_level_iterator<Tag>(cd.begin(), cd.end());
    walk<F>(c, r.first, r.second, flat, backJumps, nops);
  } else {
    auto r = galois::make_two_level_iterator<Tag>(d.begin(), d.end());
    walk<F>(c, r.first, r.second, flat, backJumps, nops);
  }
}

template <typename D>
void aTags(Case& c, unsigned tag, bool constOuter, bool backJumps, unsigned nops) {
  switch (tag) {
  case 0: return aTag<D, std::forward_iterator_tag>(c, constOuter, backJumps, nops);
  case 1: return aTag<D, std::bidirectional_iterator_tag>(c, constOuter, backJumps, nops);
  default: return aTag<D, std::random_access_iterator_tag>(c, constOuter, backJumps, nops);
  }
}

typedef std::vector<std::vector<int>> VV;
typedef std::vector<std::list<int>> VL;
typedef std::list<std::vector<int>> LV;
typedef std::list<std::list<int>> LL;
typedef std::vector<std::deque<int>> VD;
typedef std::deque<std::vector<int>> DV;
typedef std::forward_list<std::vector<int>> FV;
const char* SHAPES[] = {"vector<vector>", "vector<list>",   "list<vector>",        "list<list>",
                        "vector<deque>",  "deque<vector>", "forward_list<vector>"};

} // namespace

void run_TwoLevelIterator(Case& c) {
  unsigned shape   = (unsigned)c.rng.below(6);
  unsigned flavour = (unsigned)c.rng.below(4);
  unsigned nops    = c.pickOps();
  static const char* FL[] = {"begin", "cbegin", "rbegin", "crbegin"};
  std::string cfg = std::string(SHAPES[shape]) + "|" + FL[flavour];
  if (!c.begin("TwoLevelIterator", cfg,
          J().kv("outer", SHAPES[shape]).kv("flavour", std::string("stl_two_level_") + FL[flavour]).kv("nops", nops)))
    return;
  switch (shape) {
  case 0: return stlFlavours<VV>(c, flavour, nops);
  case 1: return stlFlavours<VL>(c, flavour, nops);
  case 2: return stlFlavours<LV>(c, flavour, nops);
  case 3: return stlFlavours<LL>(c, flavour, nops);
  case 4: return stlFlavours<VD>(c, flavour, nops);
  default: return stlFlavours<DV>(c, flavour, nops);
  }
}

void run_TwoLevelIteratorA(Case& c) {
  // shape 6: forward-only outer iterators (forward_list), with every declared traversal
  unsigned shape   = (unsigned)c.rng.below(7);
  unsigned tag     = (unsigned)c.rng.below(3);
  bool constOuter  = c.rng.below(3) == 0;
  bool backJumps   = true; // backward jumps of any length
  unsigned nops    = c.pickOps();
  static const char* TG[] = {"forward", "bidirectional", "random_access"};
  std::string cfg = std::string(SHAPES[shape]) + "|" + TG[tag] + (constOuter ? "|const" : "") +
                    (tag == 2 && backJumps ? "|backjumps" : "");
  if (!c.begin("TwoLevelIteratorA", cfg,
          J().kv("outer", SHAPES[shape]).kv("tag", TG[tag]).kv("const_outer", constOuter)
              .kv("backward_jumps_beyond_one_step", tag == 2 && backJumps).kv("nops", nops)))
    return;
  switch (shape) {
  case 0: return aTags<VV>(c, tag, constOuter, backJumps, nops);
  case 1: return aTags<VL>(c, tag, constOuter, backJumps, nops);
  case 2: return aTags<LV>(c, tag, constOuter, backJumps, nops);
  case 3: return aTags<LL>(c, tag, constOuter, backJumps, nops);
  case 4: return aTags<VD>(c, tag, constOuter, backJumps, nops);
  case 5: return aTags<DV>(c, tag, constOuter, backJumps, nops);
  default: return aTags<FV>(c, tag, constOuter, backJumps, nops);
  }
}

} // namespace c14
