// C10: independent adjacency model + canonical dump comparison + flavour registry.
// No Galois graph code in here: std::map / std::multiset only.
#include "c10_common.h"

namespace c10 {

std::vector<Flavour>& registry() {
  static std::vector<Flavour> r;
  return r;
}

// ------------------------------------------------------------------ Dump
template <typename V>
static bool firstOnlyIn(const V& a, const V& b, typename V::value_type& out) {
  std::vector<typename V::value_type> d;
  std::set_difference(a.begin(), a.end(), b.begin(), b.end(), std::back_inserter(d));
  if (d.empty())
    return false;
  out = d[0];
  return true;
}
static std::string es(const std::tuple<uint32_t, uint32_t, uint64_t>& e, bool in) {
  return "(" + std::to_string(std::get<0>(e)) + (in ? "<-" : "->") + std::to_string(std::get<1>(e)) +
         ",data=" + std::to_string(std::get<2>(e)) + ")";
}
std::string Dump::diff(const Dump& o, const char* gotName, const char* expName) const {
  std::string s;
  std::pair<uint32_t, uint64_t> n;
  if (firstOnlyIn(nodes, o.nodes, n))
    s += std::string("node (lid=") + std::to_string(n.first) + ",val=" + std::to_string(n.second) + ") only in " + gotName + "; ";
  if (firstOnlyIn(o.nodes, nodes, n))
    s += std::string("node (lid=") + std::to_string(n.first) + ",val=" + std::to_string(n.second) + ") only in " + expName + "; ";
  std::tuple<uint32_t, uint32_t, uint64_t> e;
  if (firstOnlyIn(out, o.out, e))
    s += "out-edge " + es(e, false) + " only in " + gotName + "; ";
  if (firstOnlyIn(o.out, out, e))
    s += "out-edge " + es(e, false) + " only in " + expName + "; ";
  if (firstOnlyIn(in, o.in, e))
    s += "in-edge " + es(e, true) + " only in " + gotName + "; ";
  if (firstOnlyIn(o.in, in, e))
    s += "in-edge " + es(e, true) + " only in " + expName + "; ";
  s += std::string(gotName) + ": " + std::to_string(nodes.size()) + " nodes/" + std::to_string(out.size()) + " out/" +
       std::to_string(in.size()) + " in; " + expName + ": " + std::to_string(o.nodes.size()) + " nodes/" +
       std::to_string(o.out.size()) + " out/" + std::to_string(o.in.size()) + " in";
  return s;
}

// ------------------------------------------------------------------ Model
void Model::ins(uint32_t a, uint32_t b, uint64_t d) {
  out[Key(a, b)].insert(d);
  if (undirected)
    out[Key(b, a)].insert(d);
  else
    in[Key(b, a)].insert(d);
}
static bool eraseOne(std::map<Model::Key, std::multiset<uint64_t>>& m, Model::Key k, uint64_t d) {
  auto it = m.find(k);
  if (it == m.end())
    return false;
  auto jt = it->second.find(d);
  if (jt == it->second.end())
    return false;
  it->second.erase(jt);
  if (it->second.empty())
    m.erase(it);
  return true;
}
bool Model::del(uint32_t a, uint32_t b, uint64_t d) {
  if (!has(a, b, d))
    return false;
  eraseOne(out, Key(a, b), d);
  if (undirected)
    eraseOne(out, Key(b, a), d);
  else
    eraseOne(in, Key(b, a), d);
  return true;
}
bool Model::has(uint32_t a, uint32_t b, uint64_t d) const {
  auto it = out.find(Key(a, b));
  return it != out.end() && it->second.count(d) > 0;
}

static void eraseNode(std::map<Model::Key, std::multiset<uint64_t>>& m, uint32_t a) {
  for (auto it = m.begin(); it != m.end();) {
    if (it->first.first == a || it->first.second == a)
      it = m.erase(it);
    else
      ++it;
  }
}

static void viewHash(const std::map<Model::Key, std::multiset<uint64_t>>& m, uint32_t a, uint64_t& count, uint64_t& hash) {
  count = hash = 0;
  for (auto it = m.lower_bound(Model::Key(a, 0)); it != m.end() && it->first.first == a; ++it)
    for (uint64_t d : it->second) {
      ++count;
      hash += mix(it->first.second + 1, d);
    }
}

Res Model::apply(const Op& op, const Res& obs, std::string& err) {
  Res r;
  uint32_t a = op.a, b = op.b;
  switch (op.kind) {
  case K_ADD_NODE:
    if (a < nodes.size() && !nodes[a].created) {
      nodes[a].created = nodes[a].live = true;
      nodes[a].val                     = op.v;
      r.st                             = 1;
    }
    return r;
  case K_REMOVE_NODE:
    if (live(a)) {
      nodes[a].live = false;
      eraseNode(out, a);
      eraseNode(in, a);
      r.st = 1;
    }
    return r;
  case K_UPDATE_NODE:
    if (live(a)) {
      r.st         = 1;
      r.r1         = nodes[a].val;
      nodes[a].val = nodes[a].val * 31 + op.v;
    }
    return r;
  case K_ENUM_OUT:
    if (live(a)) {
      r.st = 1;
      viewHash(out, a, r.r0, r.r1);
    }
    return r;
  case K_ENUM_IN:
    if (live(a)) {
      r.st = 1;
      viewHash(undirected ? out : in, a, r.r0, r.r1);
    }
    return r;
  case K_SORT:
    if (live(a))
      r.st = 1;
    return r;
  default:
    break;
  }
  // pair operations
  if (!live(a) || !live(b))
    return r;
  r.st       = 1;
  uint32_t s = isInView(op.kind) ? b : a, t = isInView(op.kind) ? a : b;
  auto it    = out.find(Key(s, t));
  bool any   = it != out.end() && !it->second.empty();
  uint64_t mn = any ? *it->second.begin() : 0;
  switch (op.kind) {
  case K_ADD_EDGE:
    if (!any) {
      ins(s, t, op.v);
      r.r0 = 0;
    } else {
      r.r0 = 1;
      r.r1 = obs.r1;
      if (!has(s, t, obs.r1))
        err = "addEdge returned an existing edge carrying data " + std::to_string(obs.r1) + " that no " +
              std::to_string(s) + "->" + std::to_string(t) + " edge has";
    }
    break;
  case K_ADD_MULTI:
    ins(s, t, op.v);
    break;
  case K_REMOVE_FIND:
  case K_REMOVE_VIA_IN:
    if (any) {
      uint64_t d = obs.r1;
      if (!has(s, t, d)) {
        if (obs.r0)
          err = "removed edge reported with data " + std::to_string(d) + " that no " + std::to_string(s) + "->" +
                std::to_string(t) + " edge has";
        d = mn;
      }
      r.r0 = 1;
      r.r1 = d;
      del(s, t, d);
    }
    break;
  case K_REMOVE_ENUM:
    if (any) {
      r.r0 = 1;
      r.r1 = mn;
      del(s, t, mn);
    }
    break;
  case K_FIND:
  case K_FIND_IN:
    if (any) {
      r.r0 = 1;
      r.r1 = obs.r1;
      if (obs.r0 && !has(s, t, obs.r1))
        err = "found edge reported with data " + std::to_string(obs.r1) + " that no " + std::to_string(s) + "->" +
              std::to_string(t) + " edge has";
    }
    break;
  case K_UPDATE_EDGE:
    if (any) {
      r.r0 = 1;
      r.r1 = mn;
      del(s, t, mn);
      ins(s, t, edgeUpdate(mn, op.v));
    }
    break;
  case K_UPDATE_EDGE_IN:
    if (any) {
      uint64_t d = obs.r1;
      if (!has(s, t, d)) {
        if (obs.r0)
          err = "in-edge reported with data " + std::to_string(d) + " that no " + std::to_string(s) + "->" +
                std::to_string(t) + " edge has";
        d = mn;
      }
      r.r0 = 1;
      r.r1 = d;
      del(s, t, d);
      ins(s, t, edgeUpdate(d, op.v));
    }
    break;
  default:
    break;
  }
  return r;
}

void Model::dump(Dump& d) const {
  d.nodes.clear();
  d.out.clear();
  d.in.clear();
  for (uint32_t i = 0; i < nodes.size(); ++i)
    if (nodes[i].live)
      d.nodes.emplace_back(i, nodes[i].val);
  for (auto& kv : out)
    for (uint64_t x : kv.second)
      d.out.emplace_back(kv.first.first, kv.first.second, x);
  if (tracksIn)
    for (auto& kv : in)
      for (uint64_t x : kv.second)
        d.in.emplace_back(kv.first.first, kv.first.second, x);
  d.canon();
}

} // namespace c10
