from .common import H, TOPOS_QUICK, TOPOS_THOROUGH


def c07(tier):
    runs = []
    if tier == "quick":
        for t in TOPOS_QUICK:
            runs.append(H("c07_deterministic", "plain", 60, t, timeout_per_case=180, params=dict(maxitems=300, biggen=1)))
        runs.append(H("c07_deterministic", "plain", 15, "12,12,8", cpus=4, timeout_per_case=240,
                      params=dict(oversub=1, maxitems=60)))
        runs.append(H("c07_deterministic", "asan", 40, "4,4,4,4", timeout_per_case=240, params=dict(maxitems=200)))
    else:
        for t in TOPOS_THOROUGH:
            runs.append(H("c07_deterministic", "plain", 150, t, timeout_per_case=240, params=dict(maxitems=800, biggen=1)))
            runs.append(H("c07_deterministic", "asan", 50, t, timeout_per_case=300, params=dict(maxitems=300)))
        for cpus in (2, 4):
            runs.append(H("c07_deterministic", "plain", 40, "12,12,8", cpus=cpus, timeout_per_case=400,
                          params=dict(oversub=1, maxitems=80)))
    return runs


SPEC = dict(
    runs=c07,
    technique="runtime monitoring: differential comparison of repeated runs of the same generated cautious program under the "
              "deterministic executor across thread counts, delays and placements; C01/C02 oracles inside every run",
    level_text="The same generated cautious program (acquire the whole neighbourhood, cautiousPoint(), then non-commutative writes that "
               "read the whole neighbourhood, then pushes; in half of the cases which children are pushed depends on the state read) "
               "is run 2-4 times through worklists::Deterministic with thread counts from {1,2,3,4,8,16,..}, different injected delays "
               "and (with det_id) differently ordered initial ranges, in the variants default / det_id / det_id+per_iter_alloc / "
               "local_state / no_pushes. The set of committed items, every object's commit sequence, value and version must be "
               "bit-identical to the first run; within every run the conservation oracle of C01 and the isolation oracles of C02 "
               "(stamps, version stability, ticket-order replay, nothing left owned) apply. Held on the executions observed.",
    level_note="Trusts that generated programs are pure functions of the item id and of the state read under ownership; pushes before "
               "the cautious point and voluntary aborts are outside the deterministic executor's contract and not generated; "
               "fixed_neighborhood / intent_to_read / det_parallel_break variants are not instantiated. In assert-enabled "
               "builds generations above the executor's minimum window (1280 items) trip its own assertion 'someone should have "
               "committed' on the unchanged tree (calculateWindow reads commit counters other threads are resetting); no oracle "
               "violation follows from it in the plain runs, which include such generations with delays injected at that point "
               "(big_generation_cases), so the asan runs stay below that size (an assert stricter than the property, DESIGN 2.1).",
    rule="case = (variant, 2-4 runs with their thread counts, generated program, dynamic pushes or not, shuffled initial order or not); "
         "non-trivial iff >=2 distinct thread counts, >=2 threads committed in some run and objects were updated; distinct by the case signature",
    require={"runs_compared": 100, "commits_with_objects_replayed": 2000, "big_generation_cases": 5, "multi_socket_cases": 5},
    assumptions=["determinism is demanded across thread counts, repeated runs and interleavings, as the statement says; "
                 "without det_id the initial range is presented in the same order in every run"],
)
