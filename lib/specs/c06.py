from .common import H, TOPOS_QUICK, TOPOS_THOROUGH


def c06(tier):
    runs = []
    if tier == "quick":
        # (a) exclusion under contention, plain + asan
        runs.append(H("c06_locks", "plain", 100, None, timeout_per_case=30))
        runs.append(H("c06_locks", "plain", 100, "4,4,4,4", timeout_per_case=30))
        runs.append(H("c06_locks", "plain", 60, "12,12,8", cpus=4, timeout_per_case=60, params=dict(oversub=1)))
        runs.append(H("c06_locks", "asan", 80, "3,5", timeout_per_case=60))
        # (b) happens-before edges under TSan
        runs.append(H("c06_locks", "tsan", 120, "4,4,4,4", timeout_per_case=120))
        runs.append(H("c05_barriers", "tsan", 20, "4,4,4,4", timeout_per_case=120, params=dict(maxphases=30)))
        runs.append(H("c01_foreach", "tsan", 120, "4,4,4,4", timeout_per_case=90, params=dict(maxitems=600)))
        runs.append(H("c01_foreach", "tsan", 60, None, timeout_per_case=90, params=dict(maxitems=600, focus="c02")))
    else:
        for t in TOPOS_THOROUGH:
            runs.append(H("c06_locks", "plain", 300, t, timeout_per_case=30))
            runs.append(H("c06_locks", "tsan", 120, t, timeout_per_case=120))
        for cpus in (2, 4):
            runs.append(H("c06_locks", "plain", 200, "12,12,8", cpus=cpus, timeout_per_case=90, params=dict(oversub=1)))
        runs.append(H("c06_locks", "asan", 300, "4,4,4,4", timeout_per_case=60))
        for t in (None, "4,4,4,4", "3,5", "smt:2x2x2"):
            runs.append(H("c05_barriers", "tsan", 40, t, timeout_per_case=120, params=dict(maxphases=100)))
            runs.append(H("c01_foreach", "tsan", 250, t, timeout_per_case=90, params=dict(maxitems=1000)))
            runs.append(H("c01_foreach", "tsan", 120, t, timeout_per_case=90, params=dict(maxitems=1000, focus="c02")))
    return runs


SPEC = dict(
    runs=c06,
    technique="runtime monitoring + ThreadSanitizer: exclusion counters and lost-update counts under contention; TSan vector clocks on "
              "harness-declared plain payload per promised edge, reports classified by address in-process",
    level_text="Exclusion: every lock flavour (SimpleLock, PaddedLock, PtrLock with unlock/unlock_and_set/unlock_and_clear, their "
               "try_lock forms, ThreadRWlock writers and readers+writers, readUpdateProtected) is hammered by 2..max threads (and "
               "32 threads on 4 CPUs) with delays inside the critical section; an 'inside' counter must never see a second holder, "
               "a plain counter and a plain pair must show no lost or torn update, every thread must finish its quota (hang monitor). "
               "Happens-before: the same workloads, the barrier harness (arrival->departure for all barrier kinds), parallel-region "
               "entry/return for on_each, do_all (with/without stealing), for_each and ThreadPool::run with and without burnPower "
               "fast mode, lockable hand-over between for_each iterations and worklist push->pop for every worklist policy run in a "
               "ThreadSanitizer build (gcc 12 TSan honours the declared memory_order); plain payload written before each edge and "
               "read after it is registered with an in-process report classifier, and a report touching payload is a violation of "
               "that edge. TSan reports on Galois-internal state are counted in the evidence but are not violations (C06 promises "
               "visibility of user data across the listed edges, not race freedom of internals). Held on the executions observed.",
    level_note="Trusts TSan's happens-before tracking of std::atomic operations (fences are not modelled; none is on a promised edge), "
               "the harness using only relaxed atomics/thread-local state so that it adds no edges itself, NDEBUG in the tsan build "
               "(asserts would add acquire loads). TSan deduplicates reports by stack, so the first failing case names the edge.",
    rule="case = (lock flavour or region kind [+fast mode], threads, quota/repetitions, delay level, noise) or a barrier / for_each case "
         "of the C05/C01 harness in the tsan build; non-trivial iff >=2 threads; distinct by the case signature",
    require={"acquisitions": 100000, "regions": 500, "tsan_build": 50, "waits": 1000, "items_committed": 5000, "multi_socket_cases": 10},
    assumptions=["x86 hides weak orders at run time; the deciding observer for the ordering half is TSan's vector clock, not the hardware"],
)
