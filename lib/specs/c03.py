from .common import H, TOPOS_QUICK, TOPOS_THOROUGH


def c03(tier):
    runs = []
    if tier == "quick":
        for t in TOPOS_QUICK:
            runs.append(H("c03_doall", "plain", 2000, t, timeout_per_case=15))
        runs.append(H("c03_doall", "plain", 150, "12,12,8", cpus=4, timeout_per_case=30, params=dict(oversub=1, maxn=3000)))
        runs.append(H("c03_doall", "asan", 200, "4,4,4,4", timeout_per_case=40, params=dict(maxn=5000)))
        runs.append(H("c03_doall", "asan", 100, "3,5", timeout_per_case=40, params=dict(maxn=5000)))
    else:
        for t in TOPOS_THOROUGH:
            runs.append(H("c03_doall", "plain", 2500, t, timeout_per_case=15))
            runs.append(H("c03_doall", "asan", 350, t, timeout_per_case=60, params=dict(maxn=20000)))
        for cpus in (2, 4):
            runs.append(H("c03_doall", "plain", 600, "12,12,8", cpus=cpus, timeout_per_case=40, params=dict(oversub=1, maxn=5000)))
        runs.append(H("c03_doall", "tsan", 400, "4,4,4,4", timeout_per_case=90, params=dict(maxn=5000)))
        runs.append(H("c03_doall", "tsan", 200, "3,5", timeout_per_case=90, params=dict(maxn=5000)))
    return runs


SPEC = dict(
    runs=c03,
    technique="runtime monitoring: per-element / per-thread-id invocation counters and region-epoch checks on do_all, on_each and "
              "ThreadPool::run under stress, virtual topologies, failpoint delays between steal and assign and in the wake-up cascade; hang monitor",
    level_text="do_all is run over every range kind (pointers, vector/deque/list/forward_list iterators, counting iterators of three "
               "integer types with offsets, iterator sub-ranges, InsertBag with local iterators incl. bags filled by a different number "
               "of threads, SpecificRange with uneven and clipped per-thread ranges), sizes 0..1e5 around the thread count, chunk sizes "
               "1/2/3/64/4096, stealing on and off, 1..max threads, 1-3 consecutive regions with different thread counts, per-element "
               "delays that force half-steals of tiny remainders, on 1-4 socket / uneven topologies and with more threads than CPUs; "
               "on_each and ThreadPool::run sequences with changing thread counts. Counters demand exactly one invocation per element "
               "and per active thread id, none outside the range or after return, the right tid/numT arguments; a logical hang monitor "
               "decides the join. Held on the executions observed.",
    level_note="Trusts relaxed atomic counters on x86 and the /proc-based hang monitor; graph node ranges are covered through "
               "SpecificRange/LocalRange (the graph classes themselves are C11).",
    rule="case = 1-3 consecutive do_all regions (range kind, n, threads, steal, chunk, delay pattern) or an on_each/ThreadPool::run "
         "sequence with changing thread counts; non-trivial iff >=2 threads executed elements (do_all) / >=2 regions with >=2 threads; "
         "distinct by the full region description plus the number of threads that executed elements",
    require={"invocations": 100000, "stolen_elements": 100, "burnpower_sequences": 10, "multi_socket_cases": 10},
    assumptions=["elements carry their own index; the function records the executing thread"],
)
