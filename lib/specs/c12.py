"""C12 -- graph files round-trip and format conversions preserve the graph.

Runs:
  * c12_files (C++ harness, asan): FileGraphWriter/toFile/copy/fromGraph output decoded by the independent codec;
    reference-written files read through fromFile, fromFileInterleaved, partFromFile, OCFileGraph,
    OCImmutableEdgeGraph, OfflineGraph, BufferedGraph (harness/c12_*.cpp).
  * py:convert: the real graph-convert / graph-convert-huge / graph-remap binaries (asan build) on generated text
    and binary inputs; outputs decoded by the Python reference (lib/specs/grpy.py) and compared with reference
    implementations of what each option documents (this file).
"""
import concurrent.futures as cf
import os
import shutil
import struct
import subprocess
import sys
import time

from .common import H
from . import grpy as G

SCRATCH_ROOT = "/var/tmp/c12"
TOOL_TIMEOUT = 120
PAR = 6


class Inconclusive(Exception):
    pass


def _driver():
    import driver
    return driver


def classify_tool_failure(rc, text):
    """(kind, what, frames): a failed assertion / GALOIS_DIE message names the failure better than the ABRT that
    ASan reports for the abort() behind it"""
    import re
    m = re.search(r"Assertion `(.*)' failed", text)
    if m:
        return "assert", re.sub(r"\d+", "N", m.group(1))[:80], []
    m = re.search(r"^ERROR: \S+:\d+: (.*)$", text, re.M)
    if m and "AddressSanitizer" not in m.group(1):
        return "die", re.sub(r"\d+", "N", m.group(1))[:80], []
    return _driver().classify_crash(rc, text)


# ---------------------------------------------------------------------------------------------- case context
class Ctx:
    def __init__(self, idx, seed, tier, tools, root):
        self.idx = idx
        self.tier = tier
        self.tools = tools
        self.r = G.Rng(G.mix(seed, idx * 7919 + 3))
        self.dir = os.path.join(root, "c%d" % idx)
        os.makedirs(self.dir, exist_ok=True)
        self.params = {}
        self.viol = []      # (key, detail)
        self.obs = {"tool_runs": 0, "gr_files_decoded": 0, "edges_compared": 0, "text_lines_in": 0, "text_lines_out": 0}
        self.inconclusive = None
        self.sig = ""
        self.nontrivial = False
        self.fired = set()
        self.force = {}     # edge-case sweep: forced conversion mode / edge type / graph
        self.dcls = ""      # dist-graph-convert regime class

    def p(self, name):
        return os.path.join(self.dir, name)

    def key(self, tool, mode, kind):
        if tool == "dist-graph-convert":
            # optional MPI tool: coarse kinds (crash / wrong-output) per conversion and partitioning regime
            coarse = "crash" if kind.startswith("tool-failed") else "wrong-output"
            return "C12:dist-graph-convert:%s:%s%s" % (mode, coarse, (":" + self.dcls) if self.dcls else "")
        # other conversions: the same key whatever the input version (version and padding are in the witness)
        return "C12:%s:%s:%s" % (tool, mode, kind)

    def violation(self, key, detail):
        if key not in self.fired:
            self.fired.add(key)
            self.viol.append((key, detail))

    def run(self, tool, args, mode=None, mpi=0):
        """run a tool; returns True if it exited 0. A non-zero exit on a valid input is a violation."""
        exe = self.tools[tool]
        env = _driver().san_env()
        self.obs["tool_runs"] += 1
        pre = ["mpirun", "--allow-run-as-root", "--oversubscribe", "-np", str(mpi)] if mpi else []
        try:
            p = subprocess.run(pre + [exe] + args, stdout=subprocess.PIPE, stderr=subprocess.STDOUT, env=env,
                               timeout=TOOL_TIMEOUT, cwd=self.dir)
        except subprocess.TimeoutExpired:
            raise Inconclusive("%s %s: no result within %ds" % (tool, " ".join(args[:2]), TOOL_TIMEOUT))
        if p.returncode == 0:
            return True
        text = p.stdout.decode(errors="replace")
        kind, what, fr = classify_tool_failure(p.returncode, text)
        lines = [l for l in text.splitlines() if "Huge page alloc failed" not in l]
        # no stack frame in the key: conversion + failure kind + message is narrow, and stays the same when the tree
        # under test lives elsewhere (mutation trials)
        key = self.key(tool, mode or args[0].lstrip("-"), "tool-failed:%s:%s" % (kind, what))
        self.violation(key, {"cmd": [tool] + [os.path.basename(a) if a.startswith("/") else a for a in args],
                             "rc": p.returncode, "output_tail": "\n".join(lines)[-1800:]})
        return False

    def decode(self, tool, mode, path, allow_trailing=False):
        """decode a .gr output with the reference; malformed output is a violation (returns None)"""
        try:
            with open(path, "rb") as f:
                b = f.read()
        except OSError as e:
            self.violation(self.key(tool, mode, "no-output"), {"error": str(e)})
            return None
        try:
            g = G.decode_gr(b, allow_trailing)
            if g.trailing:
                self.obs["outputs_with_trailing_bytes"] = self.obs.get("outputs_with_trailing_bytes", 0) + 1
        except G.GrError as e:
            self.violation(self.key(tool, mode, "malformed-output"), {"decoder": str(e), "file_bytes": len(b),
                                                                     "header": list(struct.unpack_from("<QQQQ", b, 0)) if len(b) >= 32 else None})
            return None
        self.obs["gr_files_decoded"] += 1
        return g

    def same(self, tool, mode, exp, obs, what="edges", extra=None):
        """per-node multiset comparison of two graphs (node count, destinations, data bytes)"""
        self.obs["edges_compared"] += exp.m()
        if exp.width != obs.width:
            self.violation(self.key(tool, mode, "edge-size"), {"expected": exp.width, "observed": obs.width})
            return False
        if exp.n != obs.n:
            d = {"expected_nodes": exp.n, "observed_nodes": obs.n, "expected_edges": exp.m(), "observed_edges": obs.m()}
            d.update(extra or {})
            self.violation(self.key(tool, mode, "node-count"), d)
            return False
        d = G.first_diff(exp.multiset(), obs.multiset())
        if d:
            d.update(extra or {})
            d.update({"nodes": exp.n, "expected_edges": exp.m(), "observed_edges": obs.m()})
            self.violation(self.key(tool, mode, what), d)
            return False
        return True


# ---------------------------------------------------------------------------------------------- text writers
def _sep(r):
    return r.pick([" ", " ", " ", "\t", "   ", " \t "])


def _decorate(r, lines, feats, comment="#"):
    """insert comment lines / blank lines, choose line ending, maybe drop the final newline"""
    out = []
    for l in lines:
        if "comments" in feats and r.below(6) == 0:
            out.append(r.pick([comment + " a comment", comment, comment + " 1 2 3", comment + "\tignore me 7"]))
        if "blank" in feats and r.below(6) == 0:
            out.append(r.pick(["", "", "   ", "\t"]))
        out.append(l)
    if "comments" in feats and r.below(2):
        out.append(comment + " trailing comment")
    eol = "\r\n" if "crlf" in feats else "\n"
    text = eol.join(out)
    if out and not ("noeol" in feats):
        text += eol
    return text


def _edge_order(r, g, feats):
    E = list(g.edges())
    if "shuffled" in feats:
        r.shuffle(E)
    return E


def write_edgelist(ctx, g, et, feats, csv=False):
    """returns (text, expected graphs accepted). Lines: src dst [weight]; csv: header line + comma separated"""
    r = ctx.r
    E = _edge_order(r, g, feats)
    lines = []
    alt_missing = []  # indices of edges written without a weight (weighted modes)
    kept = []
    for i, (s, d, w) in enumerate(E):
        sep = (lambda: r.pick([",", ", ", " ,", " , ", ",\t"])) if csv else (lambda: _sep(r))
        l = ("  " if "lead" in feats and r.below(4) == 0 else "") + "%d%s%d" % (s, sep(), d)
        if et != "void":
            if "missingw" in feats and r.below(7) == 0:
                alt_missing.append(i)
            else:
                l += sep() + G.fmt_exact(et, G.et_unpack(et, w))
                if "extra" in feats and r.below(4) == 0:
                    l += sep() + r.pick(["99", "x", "0.5 7"])
        else:
            if "extra" in feats and r.below(3) == 0:
                l += sep() + r.pick(["7", "1.5", "42 43", "w"])
        lines.append(l)
    body = _decorate(r, lines, feats)
    if csv:
        eol = "\r\n" if "crlf" in feats else "\n"
        body = r.pick(["src,dst", "src,dst,weight", "a,b,c"]) + eol + body
    # expected: lines that do not match the format are ignored (the tool says so in its warning). For lines whose
    # weight is missing the harness accepts both "ignored" and "kept with weight 0".
    def build(skip_missing):
        maxid = -1
        edges = []
        for i, (s, d, w) in enumerate(E):
            if i in miss:
                if skip_missing:
                    continue
                w = G.et_pack(et, 0.0 if G.ETYPES[et][2] == "float" else 0)
            edges.append((s, d, w))
            maxid = max(maxid, s, d)
        n = maxid + 1
        e = G.Graph(n, G.et_width(et))
        for s, d, w in edges:
            e.adj[s].append((d, w))
        return e
    miss = set(alt_missing)
    exps = [build(True)] + ([build(False)] if miss else [])
    return body, exps


# ---------------------------------------------------------------------------------------------- generators
def small_int_weights(ctx, g, et, lo, hi):
    """replace edge data by integers in [lo,hi] representable in every edge type used by the chain"""
    for a in g.adj:
        for i, (d, _) in enumerate(a):
            v = ctx.r.range(lo, hi)
            a[i] = (d, G.et_pack(et, float(v) if G.ETYPES[et][2] == "float" else v))


EDGE_GRAPHS = ["empty", "node", "loop", "isolated", "edge", "last-isolated"]


def edge_case_graph(name, et, version=1):
    """the smallest members of the C11 graph family, where conversions most often go wrong"""
    n, E = {"empty": (0, []), "node": (1, []), "loop": (1, [(0, 0)]), "isolated": (4, []), "edge": (2, [(0, 1)]),
            "last-isolated": (3, [(0, 1), (1, 0)]), "path4": (4, [(0, 1), (1, 2), (2, 3), (3, 3), (1, 2)])}[name]
    g = G.Graph(n, G.et_width(et), version)
    g.kind = "edge-case:" + name
    for i, (a, b) in enumerate(E):
        g.adj[a].append((b, G.et_pack(et, float(7 + i) if G.ETYPES[et][2] == "float" else 7 + i) if et != "void" else b""))
    return g


def pick_feats(r, pool):
    return set(f for f in pool if r.below(3) == 0)


def max_nodes(ctx):
    return 2000 if ctx.tier == "thorough" else 300


def write_input_gr(ctx, g, name="in.gr"):
    """write the binary input of a tool run (version 2 in its one layout: no pad word)"""
    p = ctx.p(name)
    G.write_gr(p, g, g.version)
    return p


# ---------------------------------------------------------------------------------------------- family: text -> gr
TEXT_MODES = ["edgelist2gr", "edgelist2gr", "edgelist2gr", "csv2gr", "dimacs2gr", "mtx2gr", "nodelist2gr", "pbbs2gr"]


def fam_text2gr(ctx):
    r = ctx.r
    mode = ctx.force.get("mode") or r.pick(TEXT_MODES)
    if mode in ("nodelist2gr", "pbbs2gr"):
        et = "void"
    elif mode in ("dimacs2gr", "mtx2gr"):
        et = r.pick(["int32", "uint32", "int64", "uint64", "float32", "float64"])
    else:
        et = r.pick(["void", "void", "int32", "uint32", "int64", "uint64", "float32", "float64"])
    if ctx.force.get("et") and not (et == "void" and mode in ("nodelist2gr", "pbbs2gr")):
        et = ctx.force["et"] if not (ctx.force["et"] == "void" and mode in ("dimacs2gr", "mtx2gr")) else "int32"
    shape = None
    big = 0
    if mode in ("edgelist2gr", "csv2gr") and r.below(5) == 0 and not ctx.force:
        shape = "gaps"
        big = r.pick([5000, 70000, 200000] if ctx.tier == "quick" else [70000, 300000, 1000000])
    vmode = r.pick(["small", "medium", "wide", "unique"])
    if mode == "dimacs2gr":
        vmode = "dimacs"
    if mode == "mtx2gr" and G.ETYPES[et][2] != "float":
        vmode = r.pick(["small", "medium"])  # integral values that survive the tool's double parsing
    if shape == "gaps":
        rr = G.Rng(r.next())
        n, E = G.gen_structure(rr, "gaps", big)
        g = G.Graph(n, G.et_width(et))
        g.kind = "gaps"
        for s, d in E:
            g.adj[s].append((d, G.et_pack(et, G.gen_value(rr, et, vmode)) if et != "void" else b""))
    elif ctx.force:
        g = edge_case_graph(ctx.force["graph"], et)
    else:
        g = G.gen_graph(r, et, max_nodes(ctx), vmode="small" if vmode == "dimacs" else vmode)
    if mode == "dimacs2gr":
        # dimacs weights are parsed as int32 by the tool and converted to the edge type
        lo, hi = (1, 100000) if G.ETYPES[et][2] != "int" else (-1000, 100000)
        small_int_weights(ctx, g, et, lo, hi)
    if mode == "mtx2gr" and et == "uint64":
        small_int_weights(ctx, g, et, 0, 1 << 40)
    if mode == "mtx2gr" and et == "int64":
        small_int_weights(ctx, g, et, -(1 << 40), 1 << 40)
    feats = pick_feats(r, ["comments", "blank", "crlf", "shuffled", "lead", "extra", "noeol", "missingw"])
    if ctx.force:
        feats -= {"missingw"}
    ctx.params = {"family": "text2gr", "mode": mode, "edgeType": et, "nodes": g.n, "edges": g.m(), "shape": g.kind,
                  "features": sorted(feats), "values": vmode}
    inp, out = ctx.p("in.txt"), ctx.p("out.gr")
    exps = None
    if mode in ("edgelist2gr", "csv2gr"):
        text, exps = write_edgelist(ctx, g, et, feats, csv=(mode == "csv2gr"))
    elif mode == "dimacs2gr":
        feats -= {"noeol", "missingw", "extra", "lead"}
        E = _edge_order(r, g, feats)
        L = []
        if "comments" in feats:
            L += ["c generated file", "c"]
        L.append("p%ssp%s%d%s%d" % (_sep(r), _sep(r), g.n, _sep(r), len(E)))
        for s, d, w in E:
            if "comments" in feats and r.below(8) == 0:
                L.append("c in between")
            if "blank" in feats and r.below(8) == 0:
                L.append("")
            L.append("a%s%d%s%d%s%s" % (_sep(r), s + 1, _sep(r), d + 1, _sep(r), G.fmt_exact("int64", int(G.et_unpack(et, w)))))
        eol = "\r\n" if "crlf" in feats else "\n"
        text = eol.join(L) + eol
        exps = [g]
        ctx.params["features"] = sorted(feats)
    elif mode == "mtx2gr":
        feats -= {"noeol", "missingw", "extra", "lead", "blank"}
        E = _edge_order(r, g, feats)
        L = []
        if "comments" in feats:
            L += ["%%MatrixMarket matrix coordinate real general", "% generated"]
        L.append("%d%s%d%s%d" % (g.n, _sep(r), g.n, _sep(r), len(E)))
        for s, d, w in E:
            L.append("%d%s%d%s%s" % (s + 1, _sep(r), d + 1, _sep(r), G.fmt_exact(et, G.et_unpack(et, w))))
        eol = "\r\n" if "crlf" in feats else "\n"
        text = eol.join(L) + eol
        exps = [g]
        ctx.params["features"] = sorted(feats)
    elif mode == "nodelist2gr":
        # <node id> <num neighbors> <neighbor id>* ; nodes without edges need not be listed, the last node is
        # (the node count is the largest listed id + 1)
        feats &= {"crlf", "shuffled"}
        order = [s for s in range(g.n) if g.adj[s] or s == g.n - 1 or r.below(2)]
        if "shuffled" in feats:
            r.shuffle(order)
        L = [" ".join([str(s), str(len(g.adj[s]))] + [str(d) for d, _ in g.adj[s]]) for s in order]
        eol = "\r\n" if "crlf" in feats else "\n"
        text = eol.join(L) + (eol if L else "")
        exps = [g if g.n else G.Graph(1, 0)]
        ctx.params["features"] = sorted(feats)
    else:  # pbbs2gr
        feats &= {"crlf"}
        eol = "\r\n" if "crlf" in feats else "\n"
        L = ["AdjacencyGraph", str(g.n), str(g.m())]
        off = 0
        for a in g.adj:
            L.append(str(off))
            off += len(a)
        for a in g.adj:
            L += [str(d) for d, _ in a]
        text = eol.join(L) + eol
        exps = [g]
        ctx.params["features"] = sorted(feats)
    with open(inp, "w", newline="") as f:
        f.write(text)
    ctx.obs["text_lines_in"] += text.count("\n")
    ctx.sig = "text2gr|%s|%s|%s|%s" % (mode, et, g.kind, "+".join(sorted(feats)))
    ctx.nontrivial = g.m() >= 2
    if not ctx.run("graph-convert", ["-" + mode, "-edgeType=" + et, inp, out], mode):
        return
    o = ctx.decode("graph-convert", mode, out)
    if o is None:
        return
    # empty edge list: the node count is not determined by the input (0 or 1 accepted)
    if exps[0].m() == 0 and mode in ("edgelist2gr", "csv2gr", "nodelist2gr") and o.m() == 0 and o.n in (0, 1) and exps[0].n <= 1:
        return
    if len(exps) == 1:
        ctx.same("graph-convert", mode, exps[0], o)
    else:
        for e in exps:
            if e.n == o.n and e.width == o.width and G.first_diff(e.multiset(), o.multiset()) is None:
                ctx.obs["edges_compared"] += e.m()
                return
        ctx.same("graph-convert", mode, exps[0], o, extra={"note": "lines without a weight: neither 'ignored' nor 'weight 0' matches"})


# ---------------------------------------------------------------------------------------------- family: gr -> text (-> gr)
def near6(a, b):
    """b equals a rounded to 6 significant digits (what a default-precision ostream prints)"""
    if a == b:
        return True
    try:
        return float("%g" % a) == float(b) or abs(a - b) <= 5e-6 * abs(a)
    except (OverflowError, ValueError):
        return False


def cmp_text_edges(ctx, mode, et, g, obs_edges, n_obs=None, m_obs=None, cast=None):
    """obs_edges: list of (src, dst, weight text or None) in file order. Returns 'ok' | 'precision' | 'bad'"""
    tool = "graph-convert"
    if n_obs is not None and n_obs != g.n:
        ctx.violation(ctx.key(tool, mode, "node-count"), {"expected": g.n, "observed": n_obs})
        return "bad"
    if m_obs is not None and m_obs != g.m():
        ctx.violation(ctx.key(tool, mode, "edge-count"), {"expected": g.m(), "observed": m_obs})
        return "bad"
    exp = sorted((s, d, G.et_unpack(et, w) if et != "void" else None) for s, d, w in g.edges())
    if cast:
        exp = sorted((s, d, cast(v)) for s, d, v in exp)
    kind = G.ETYPES[et][2]
    obs = []
    for s, d, wt in obs_edges:
        if et == "void" or wt is None:
            v = None
        else:
            try:
                v = float(wt) if (kind == "float" or any(c in wt for c in ".eEn")) else int(wt)
            except ValueError:
                ctx.violation(ctx.key(tool, mode, "unparsable-weight"), {"text": wt})
                return "bad"
        obs.append((s, d, v))
    ctx.obs["edges_compared"] += len(exp)
    if len(obs) != len(exp):
        ctx.violation(ctx.key(tool, mode, "edge-count"), {"expected": len(exp), "observed": len(obs)})
        return "bad"
    # structure first
    if sorted((s, d) for s, d, _ in obs) != [(s, d) for s, d, _ in exp]:
        es = [(s, d) for s, d, _ in exp]
        os_ = sorted((s, d) for s, d, _ in obs)
        i = next(i for i in range(len(es)) if es[i] != os_[i])
        ctx.violation(ctx.key(tool, mode, "edges"), {"first_difference_sorted": {"expected": es[i], "observed": os_[i]},
                                                     "nodes": g.n, "edges": g.m()})
        return "bad"
    if et == "void":
        return "ok"
    obs.sort(key=lambda t: (t[0], t[1], t[2]))
    exp.sort(key=lambda t: (t[0], t[1], t[2]))
    prec = None
    for (s, d, ve), (_, _, vo) in zip(exp, obs):
        if et == "float32" and isinstance(vo, float):
            vo_c = G.f32(vo)
        else:
            vo_c = vo
        if ve == vo_c:
            continue
        if near6(float(ve), float(vo)):
            prec = prec or {"src": s, "dst": d, "weight": repr(ve), "printed_as": repr(vo)}
            continue
        ctx.violation(ctx.key(tool, mode, "weights"), {"src": s, "dst": d, "expected": repr(ve), "observed": repr(vo)})
        return "bad"
    if prec:
        # one root cause for all text writers (default ostream precision), one for gr2mtx's cast of integers to double
        pk = "C12:graph-convert:text-output:weight-precision:" + ("float" if kind == "float" else "gr2mtx-int")
        ctx.violation(pk, dict(prec, mode=mode, edgeType=et, what="weight printed with 6 significant digits: "
                               "the text output does not carry the edge weight"))
        return "precision"
    return "ok"


GR2TEXT_MODES = ["gr2edgelist", "gr2edgelist", "gr2edgelist1ind", "gr2dimacs", "gr2mtx", "gr2adjacencylist", "gr2pbbs", "gr2pbbsedges"]


def fam_gr2text(ctx):
    r = ctx.r
    mode = ctx.force.get("mode") or r.pick(GR2TEXT_MODES + (["gr2rmat", "gr2neo4j"] if ctx.tier == "thorough" else []))
    nonvoid = mode in ("gr2dimacs", "gr2mtx", "gr2pbbsedges", "gr2rmat")
    if nonvoid:
        et = r.pick(["int32", "uint32", "int64", "uint64", "float32", "float64"])
    elif mode == "gr2adjacencylist":
        et = r.pick(["void", "void", "uint32", "float64"])
    else:
        et = r.pick(["void", "int32", "uint32", "int64", "uint64", "float32", "float64"])
    if ctx.force.get("et"):
        et = ctx.force["et"] if not (nonvoid and ctx.force["et"] == "void") else "uint32"
    vmode = r.pick(["small", "small", "medium", "unique", "wide"])
    version = 2 if (r.below(8) == 0 and mode not in ("gr2pbbs",)) else 1
    if ctx.force:
        g = edge_case_graph(ctx.force["graph"], et, version)
    else:
        g = G.gen_graph(r, et, max_nodes(ctx), vmode=vmode, version=version)
    if mode == "gr2rmat":
        small_int_weights(ctx, g, et, 0, 1000)  # weights are documented to be written as int32
    ctx.params = {"family": "gr2text", "mode": mode, "edgeType": et, "nodes": g.n, "edges": g.m(), "shape": g.kind,
                  "values": vmode, "version": version}
    ctx.sig = "gr2text|%s|%s|%s|v%d|%s" % (mode, et, g.kind, version, vmode)
    ctx.nontrivial = g.m() >= 2
    inp = write_input_gr(ctx, g)
    out = ctx.p("out.txt")
    if not ctx.run("graph-convert", ["-" + mode, "-edgeType=" + et, inp, out], mode):
        return
    res = check_text_output(ctx, mode, et, g, out)
    # round trip back to binary where a reverse conversion exists and the text carried the weights exactly
    back = {"gr2edgelist": "edgelist2gr", "gr2dimacs": "dimacs2gr", "gr2mtx": "mtx2gr", "gr2pbbs": "pbbs2gr"}.get(mode)
    if res != "ok" or not back or ctx.viol:
        return
    if mode == "gr2pbbs" and et != "void":
        return
    if mode == "gr2dimacs" and (G.ETYPES[et][2] == "float" or any(abs(G.et_unpack(et, w)) >= 1 << 31 for _, _, w in g.edges())):
        return  # dimacs2gr reads int32 weights
    if mode == "gr2mtx" and G.ETYPES[et][2] != "float" and any(abs(G.et_unpack(et, w)) >= 1 << 53 for _, _, w in g.edges()):
        return
    out2 = ctx.p("back.gr")
    rt = "roundtrip:%s+%s" % (mode, back)
    if not ctx.run("graph-convert", ["-" + back, "-edgeType=" + et, ctx.p("out.txt"), out2], rt):
        return
    o = ctx.decode("graph-convert", rt, out2)
    if o is None:
        return
    exp = g
    if mode == "gr2edgelist":
        # the edge list does not carry the node count: nodes after the largest id in use are not representable
        maxid = max([max(s, d) for s, d, _ in g.edges()] or [-1])
        exp = G.Graph(maxid + 1, g.width)
        exp.adj = [list(a) for a in g.adj[:maxid + 1]]
        if maxid < 0:
            if o.m() == 0 and o.n in (0, 1):
                return
    ctx.same("graph-convert", rt, exp, o)
    ctx.params["roundtrip"] = back


def check_text_output(ctx, mode, et, g, out):
    try:
        with open(out + ".edges" if mode == "gr2neo4j" else out, newline="") as f:
            text = f.read()
    except OSError as e:
        ctx.violation(ctx.key("graph-convert", mode, "no-output"), {"error": str(e)})
        return "bad"
    lines = text.split("\n")
    if lines and lines[-1] == "":
        lines.pop()
    ctx.obs["text_lines_out"] += len(lines)
    try:
        if mode in ("gr2edgelist", "gr2edgelist1ind"):
            off = 1 if mode == "gr2edgelist1ind" else 0
            E = []
            for l in lines:
                t = l.split()
                E.append((int(t[0]) - off, int(t[1]) - off, t[2] if len(t) > 2 else None))
            if et != "void" and any(w is None for _, _, w in E):
                ctx.violation(ctx.key("graph-convert", mode, "weights"), {"what": "line without weight"})
                return "bad"
            return cmp_text_edges(ctx, mode, et, g, E)
        if mode == "gr2dimacs":
            h = lines[0].split()
            E = []
            for l in lines[1:]:
                t = l.split()
                if t[0] != "a":
                    raise ValueError("line does not start with 'a': " + l)
                E.append((int(t[1]) - 1, int(t[2]) - 1, t[3]))
            if h[0] != "p":
                raise ValueError("no problem line")
            return cmp_text_edges(ctx, mode, et, g, E, int(h[-2]), int(h[-1]))
        if mode == "gr2mtx":
            h = lines[0].split()
            E = []
            for l in lines[1:]:
                t = l.split()
                E.append((int(t[0]) - 1, int(t[1]) - 1, t[2]))
            if int(h[0]) != int(h[1]):
                raise ValueError("not square")
            # the weight text must carry the weight exactly, whether printed as an integer or as a decimal fraction
            return cmp_text_edges(ctx, mode, et, g, E, int(h[0]), int(h[2]))
        if mode == "gr2adjacencylist":
            E = []
            seen = []
            for l in lines:
                t = l.split()
                s = int(t[0])
                seen.append(s)
                for d in t[1:]:
                    E.append((s, int(d), None))
            if seen != list(range(g.n)):
                ctx.violation(ctx.key("graph-convert", mode, "node-count"), {"expected_nodes": g.n, "lines": len(seen)})
                return "bad"
            gv = g.copy()
            return cmp_text_edges(ctx, mode, "void", _strip(gv), E)
        if mode == "gr2pbbs":
            want = ("Weighted" if et != "void" else "") + "AdjacencyGraph"
            if lines[0] != want:
                raise ValueError("header %r" % lines[0])
            n, m = int(lines[1]), int(lines[2])
            if g.n == 0:
                return "ok" if (n, m) == (0, 0) else "bad"
            offs = [int(x) for x in lines[3:3 + n]]
            dst = [int(x) for x in lines[3 + n:3 + n + m]]
            ws = lines[3 + n + m:]
            if et != "void" and len(ws) != m:
                raise ValueError("weights: %d lines for %d edges" % (len(ws), m))
            if et == "void" and ws:
                raise ValueError("trailing lines")
            E = []
            for s in range(n):
                a, b = offs[s], (offs[s + 1] if s + 1 < n else m)
                for e in range(a, b):
                    E.append((s, dst[e], ws[e] if et != "void" else None))
            return cmp_text_edges(ctx, mode, et, g, E, n, m)
        if mode == "gr2pbbsedges":
            if lines[0] != "WeightedEdgeArray":
                raise ValueError("header %r" % lines[0])
            E = []
            for l in lines[1:]:
                t = l.split()
                E.append((int(t[0]), int(t[1]), t[2]))
            return cmp_text_edges(ctx, mode, et, g, E)
        if mode == "gr2rmat":
            if lines[:3] != ["%%%"] * 3:
                raise ValueError("comment header")
            n, m = [int(x) for x in lines[3].split()]
            E = []
            for l in lines[4:]:
                t = l.split()
                s, k = int(t[0]), int(t[1])
                if len(t) != 2 + 2 * k:
                    raise ValueError("degree %d but %d tokens" % (k, len(t)))
                for i in range(k):
                    E.append((s, int(t[2 + 2 * i]), t[3 + 2 * i]))
            return cmp_text_edges(ctx, mode, et, g, E, n, m, cast=lambda v: int(v))
        if mode == "gr2neo4j":
            nodes = open(out + ".nodes").read().split("\n")
            edges = open(out + ".edges").read().split("\n")
            if nodes[-1] == "":
                nodes.pop()
            if edges[-1] == "":
                edges.pop()
            E = []
            for l in edges:
                t = l.split(",")
                E.append((int(t[0]), int(t[1]), t[3] if len(t) > 3 else None))
            return cmp_text_edges(ctx, mode, et, g, E, len(nodes))
    except (ValueError, IndexError) as e:
        ctx.violation(ctx.key("graph-convert", mode, "malformed-output"), {"error": str(e), "head": lines[:6]})
        return "bad"
    return "bad"


def _strip(g):
    o = G.Graph(g.n, 0, g.version)
    o.adj = [[(d, b"") for d, _ in a] for a in g.adj]
    return o


# ---------------------------------------------------------------------------------------------- family: gr -> gr
GR2GR_QUICK = ["gr2tgr", "gr2tgr", "gr2sgr", "gr2sgr", "gr2sorteddstgr", "gr2sorteddstgr", "gr2sortedweightgr", "gr2sortedweightgr",
               "gr2cgr", "gr2cgr", "gr2randomweightgr", "gr2randomweightgr", "gr2randgr", "gr2sorteddegreegr", "gr2sortedbfsgr",
               "gr2trigr", "gr2ringgr", "gr2linegr", "gr2treegr", "gr2streegr", "gr2lowdegreegr", "gr2partsrcgr", "gr2partdstgr",
               "gr2biggr", "gr2sortedparentdegreegr"]


def read_perm(path, n):
    p = [None] * n
    with open(path) as f:
        for l in f:
            l = l.strip()
            if not l:
                continue
            a, b = l.split(",")
            p[int(a)] = int(b)
    if any(x is None for x in p) or sorted(p) != list(range(n)):
        return None
    return p


def fam_gr2gr(ctx):
    r = ctx.r
    mode = ctx.force.get("mode") or r.pick(GR2GR_QUICK)
    needs_data = mode in ("gr2sortedweightgr", "gr2randomweightgr", "gr2biggr")
    et = r.pick(["int32", "uint32", "int64", "uint64", "float32", "float64"] + ([] if needs_data else ["void", "void"]))
    if ctx.force.get("et"):
        et = ctx.force["et"] if not (needs_data and ctx.force["et"] == "void") else "uint32"
    version = 2 if r.below(7) == 0 else 1
    vmode = r.pick(["small", "medium", "wide", "unique"])
    in_et = et
    if mode == "gr2randomweightgr" and r.below(2):
        in_et = "void"  # "Add ... edge weights" to an unweighted graph
    if ctx.force:
        g = edge_case_graph(ctx.force["graph"], in_et, version)
    else:
        g = G.gen_graph(r, in_et, max_nodes(ctx), vmode=vmode, version=version)
    if mode == "gr2trigr":
        g = G.symmetric_closure(g)
        g.kind += "+sym"
    if mode == "gr2sortedbfsgr" and g.n == 0:
        # the BFS source must be a node of the graph
        g = edge_case_graph("node", in_et, version) if ctx.force else G.gen_graph(r, in_et, 20, shape="random", vmode=vmode, version=version)
    args = []
    opt = {}
    if mode == "gr2randomweightgr":
        if r.below(2):
            opt["min"], opt["max"] = r.range(0, 50), r.range(50, 5000)
            args += ["-minValue=%d" % opt["min"], "-maxValue=%d" % opt["max"]]
        else:
            opt["min"], opt["max"] = 1, 100
    if mode in ("gr2ringgr", "gr2linegr", "gr2treegr", "gr2streegr"):
        opt["max"] = 100
        if r.below(2):
            opt["max"] = r.range(1, 1000)
            args += ["-maxValue=%d" % opt["max"]]
    if mode == "gr2lowdegreegr":
        degs = sorted(len(a) for a in g.adj) or [0]
        opt["maxdeg"] = r.pick([degs[len(degs) // 2], degs[-1], max(0, degs[-1] - 1), 1, 2])
        args += ["-maxDegree=%d" % opt["maxdeg"]]
    if mode in ("gr2partsrcgr", "gr2partdstgr"):
        opt["parts"] = r.range(1, 5)
        args += ["-numParts=%d" % opt["parts"]]
    if mode == "gr2sortedbfsgr":
        opt["source"] = r.below(g.n)
        args += ["-sourceNode=%d" % opt["source"]]
    perm_modes = ("gr2randgr", "gr2sorteddegreegr", "gr2sortedbfsgr", "gr2sortedparentdegreegr")
    if mode in perm_modes:
        args += ["-outputNodePermutation=" + ctx.p("perm.txt")]
    ctx.params = {"family": "gr2gr", "mode": mode, "edgeType": et, "input_edgeType": in_et, "nodes": g.n, "edges": g.m(),
                  "shape": g.kind, "values": vmode, "version": version, "options": opt}
    ctx.sig = "gr2gr|%s|%s|%s|v%d|%s" % (mode, et, g.kind, version, "in-void" if in_et != et else vmode)
    ctx.nontrivial = g.m() >= 2
    inp = write_input_gr(ctx, g)
    out = ctx.p("out.gr")
    if not ctx.run("graph-convert", ["-" + mode, "-edgeType=" + et] + args + [inp, out], mode):
        return
    check_gr2gr(ctx, mode, et, in_et, g, out, opt)


def check_gr2gr(ctx, mode, et, in_et, g, out, opt):
    tool = "graph-convert"
    kind = G.ETYPES[et][2]
    if mode in ("gr2partsrcgr", "gr2partdstgr"):
        k = opt["parts"]
        union = G.Graph(g.n, g.width)
        owner = {}
        for i in range(k):
            o = ctx.decode(tool, mode, "%s.%d.of.%d" % (out, i, k))
            if o is None:
                return
            if o.n != g.n or o.width != g.width:
                ctx.violation(ctx.key(tool, mode, "node-count"), {"part": i, "expected_nodes": g.n, "observed": o.n,
                                                                  "expected_edge_size": g.width, "observed_edge_size": o.width})
                return
            for s, d, w in o.edges():
                union.adj[s].append((d, w))
                x = s if mode == "gr2partsrcgr" else d
                if owner.setdefault(x, i) != i:
                    ctx.violation(ctx.key(tool, mode, "partition-not-disjoint"),
                                  {"node": x, "parts": [owner[x], i], "by": "source" if mode == "gr2partsrcgr" else "destination"})
                    return
        ctx.same(tool, mode, g, union, what="union-of-parts")
        return
    o = ctx.decode(tool, mode, out)
    if o is None:
        return
    if mode == "gr2tgr":
        ctx.same(tool, mode, G.transpose(g), o)
    elif mode == "gr2sgr":
        # reverse of every edge added; a self loop is its own reverse: one or two copies accepted
        if o.n != g.n or o.width != g.width:
            ctx.same(tool, mode, G.symmetric_closure(g), o)
            return
        exp = G.symmetric_closure(g)
        em, om = exp.multiset(), o.multiset()
        for s in range(g.n):
            e_ns = [x for x in em[s] if x[0] != s]
            o_ns = [x for x in om[s] if x[0] != s]
            e_self = [x for x in em[s] if x[0] == s]
            o_self = [x for x in om[s] if x[0] == s]
            ok = e_ns == o_ns
            if ok and e_self != o_self:
                # every self loop once or twice
                from collections import Counter
                ce, co = Counter(e_self), Counter(o_self)
                ok = set(ce) == set(co) and all(ce[x] <= co[x] <= 2 * ce[x] for x in ce)
            if not ok:
                ctx.same(tool, mode, exp, o)
                return
        ctx.obs["edges_compared"] += exp.m()
    elif mode in ("gr2sorteddstgr", "gr2sortedweightgr"):
        if not ctx.same(tool, mode, g, o):
            return
        for s, a in enumerate(o.adj):
            keys = [d for d, _ in a] if mode == "gr2sorteddstgr" else [G.et_unpack(et, w) for _, w in a]
            if any(keys[i] > keys[i + 1] for i in range(len(keys) - 1)):
                ctx.violation(ctx.key(tool, mode, "not-sorted"), {"node": s, "keys": keys[:12]})
                return
    elif mode == "gr2cgr":
        if o.n != g.n or o.width != g.width:
            ctx.same(tool, mode, g, o)
            return
        ctx.obs["edges_compared"] += g.m()
        for s in range(g.n):
            allowed = {}
            for d, w in g.adj[s]:
                if d != s:
                    allowed.setdefault(d, set()).add(w)
            od = [d for d, _ in o.adj[s]]
            if sorted(od) != sorted(allowed):
                ctx.violation(ctx.key(tool, mode, "edges"), {"node": s, "expected_destinations": sorted(allowed)[:12],
                                                             "observed_destinations": sorted(od)[:12],
                                                             "what": "self edges and multi-edges removed, everything else kept once"})
                return
            for d, w in o.adj[s]:
                if w not in allowed[d]:
                    ctx.violation(ctx.key(tool, mode, "weights"), {"node": s, "dst": d, "observed": w.hex(),
                                                                   "weights_of_input_edges": sorted(x.hex() for x in allowed[d])[:6]})
                    return
    elif mode == "gr2randomweightgr":
        if o.width != G.et_width(et):
            ctx.violation(ctx.key(tool, mode, "edge-size"), {"expected": G.et_width(et), "observed": o.width})
            return
        if not ctx.same(tool, mode, _strip(g), _strip(o), what="structure"):
            return
        lo, hi = opt["min"], opt["max"]
        for s, d, w in o.edges():
            v = G.et_unpack(et, w)
            if not (lo <= v <= hi) or v != v:
                ctx.violation(ctx.key(tool, mode, "weight-out-of-range"), {"src": s, "dst": d, "weight": repr(v), "min": lo, "max": hi})
                return
    elif mode in ("gr2randgr", "gr2sorteddegreegr", "gr2sortedbfsgr", "gr2sortedparentdegreegr"):
        p = read_perm(ctx.p("perm.txt"), g.n) if g.n else []
        if p is None:
            ctx.violation(ctx.key(tool, mode, "permutation-file"), {"what": "not a permutation of the node ids"})
            return
        if not ctx.same(tool, mode, G.permute(g, p), o, what="not-the-permuted-graph"):
            return
        if mode == "gr2sorteddegreegr":
            degs = [len(a) for a in o.adj]
            if any(degs[i] > degs[i + 1] for i in range(len(degs) - 1)):
                ctx.violation(ctx.key(tool, mode, "not-sorted"), {"out_degrees_in_new_order": degs[:20]})
        if mode == "gr2sortedbfsgr":
            src = opt["source"]
            dist = {src: 0}
            q = [src]
            while q:
                nq = []
                for u in q:
                    for d, _ in g.adj[u]:
                        if d not in dist:
                            dist[d] = dist[u] + 1
                            nq.append(d)
                q = nq
            inv = [0] * g.n
            for old, new in enumerate(p):
                inv[new] = old
            seq = [dist.get(old, 1 << 60) for old in inv]
            if p[src] != 0 or any(seq[i] > seq[i + 1] for i in range(len(seq) - 1)):
                ctx.violation(ctx.key(tool, mode, "not-bfs-order"), {"source": src, "bfs_levels_in_new_order": [x if x < 1 << 60 else -1 for x in seq[:20]]})
    elif mode == "gr2trigr":
        up, lowr = G.Graph(g.n, g.width), G.Graph(g.n, g.width)
        for s, d, w in g.edges():
            if s <= d:
                up.adj[s].append((d, w))
            if s >= d:
                lowr.adj[s].append((d, w))
        if o.n == g.n and o.width == g.width and G.first_diff(lowr.multiset(), o.multiset()) is None:
            ctx.obs["edges_compared"] += lowr.m()
            return
        ctx.same(tool, mode, up, o)
    elif mode in ("gr2ringgr", "gr2linegr", "gr2treegr", "gr2streegr"):
        exp = g.copy()
        mv = opt["max"]
        w = b"" if et == "void" else G.et_pack(et, float(mv) if kind == "float" else mv)
        n = g.n
        if mode in ("gr2ringgr", "gr2linegr"):
            for i in range(n):
                if mode == "gr2linegr" and i == 0:
                    continue
                exp.adj[i].append(((i - 1) % n, w))
        else:
            for i in range(n):
                for c in (2 * i + 1, 2 * i + 2):
                    if c < n:
                        exp.adj[i].append((c, w))
                        if mode == "gr2streegr":
                            exp.adj[c].append((i, w))
        ctx.same(tool, mode, exp, o)
    elif mode == "gr2lowdegreegr":
        k = opt["maxdeg"]
        keep = [len(a) <= k for a in g.adj]
        newid = {}
        for s in range(g.n):
            if keep[s]:
                newid[s] = len(newid)
        exp = G.Graph(len(newid), g.width)
        for s, d, w in g.edges():
            if keep[s] and keep[d]:
                exp.adj[newid[s]].append((newid[d], w))
        ctx.same(tool, mode, exp, o)
    elif mode == "gr2biggr":
        exp = g.copy()
        exp.adj = [[(d, w[::-1]) for d, w in a] for a in g.adj]
        ctx.same(tool, mode, exp, o, what="byte-swapped-data:" + kind)


# ---------------------------------------------------------------------------------------------- family: other tools
def fam_huge(ctx):
    """graph-convert-huge: edge list / dimacs text to binary gr through OfflineGraphWriter"""
    r = ctx.r
    sorted_mode = r.below(2) == 1
    small = r.below(2) == 1
    weighted = r.below(2) == 1 and not sorted_mode
    g = G.gen_graph(r, "void", 200 if ctx.tier == "quick" else 1000)
    if sorted_mode and g.n == 0:
        g = G.gen_graph(r, "void", 30, shape="random")
    et = "void"
    if weighted:
        et = "int32" if small else "int64"
        g.width = G.et_width(et)
        for a in g.adj:
            for i, (d, _) in enumerate(a):
                a[i] = (d, G.et_pack(et, r.range(1, 100000)))
    E = list(g.edges())
    if not sorted_mode:
        r.shuffle(E)
    dimacs = r.below(3) == 0 and not sorted_mode
    L = []
    if dimacs:
        L.append("p sp %d %d" % (g.n, len(E)))
    for s, d, w in E:
        o = 1 if dimacs else 0
        l = ("a " if dimacs else "") + "%d %d" % (s + o, d + o)
        if weighted:
            l += " %d" % G.et_unpack(et, w)
        L.append(l)
    inp, out = ctx.p("in.txt"), ctx.p("out.gr")
    with open(inp, "w") as f:
        f.write("\n".join(L) + ("\n" if L else ""))
    ctx.obs["text_lines_in"] += len(L)
    mode = "sorted" if sorted_mode else "unsorted"
    ctx.params = {"family": "graph-convert-huge", "mode": mode, "input": "dimacs" if dimacs else "edgelist", "32bitData": small, "weighted": weighted, "nodes": g.n,
                  "edges": g.m(), "shape": g.kind}
    ctx.sig = "huge|%s|%s|%s|%s|%s" % (mode, "dimacs" if dimacs else "el", "w" if weighted else "nw", "32" if small else "64", g.kind)
    ctx.nontrivial = g.m() >= 2
    args = []
    if small:
        args.append("-32bitData")
    if sorted_mode:
        args += ["-edgesSorted", "-numNodes=%d" % g.n]
    if not ctx.run("graph-convert-huge", args + [inp, out], mode):
        return
    o = ctx.decode("graph-convert-huge", mode, out)
    if o is None:
        return
    # node count: given (-numNodes / dimacs problem line) or largest source id + 1
    if sorted_mode or dimacs:
        expn = g.n
    else:
        expn = max([s for s, _, _ in E] or [-1]) + 1
    exp = G.Graph(expn, 0)
    for s, d, w in E:
        if s < expn:
            exp.adj[s].append((d, b""))
    # the destination of an edge may exceed the inferred node count (then the decoder already complained);
    # compare structure only (the header declares no edge data in every mode)
    ctx.same("graph-convert-huge", mode, exp, _strip(o) if o.width else o, what="edges")


def fam_remap(ctx):
    """graph-remap: keep the nodes listed (ascending) in the mapping file, renumber them compactly"""
    r = ctx.r
    g = G.gen_graph(r, "void", 300, shape=r.pick(["mixed", "gaps", "random", "bipartite", "isolated", "path", "selfloops"]))
    if g.kind == "gaps":
        pass
    used = set()
    for s, d, _ in g.edges():
        used.add(s)
        used.add(d)
    keep = [v for v in range(g.n) if v in used or r.below(3) == 0]
    if not keep:
        keep = [0] if g.n else []
    if g.n == 0 or not keep:
        g = G.gen_graph(r, "void", 20, shape="cycle")
        keep = list(range(g.n))
    inp, mp, out = ctx.p("in.gr"), ctx.p("map.txt"), ctx.p("out.gr")
    G.write_gr(inp, g, 1)
    with open(mp, "w") as f:
        f.write("\n".join(str(v) for v in keep) + "\n")
    ctx.params = {"family": "graph-remap", "mode": "remap", "nodes": g.n, "edges": g.m(), "kept_nodes": len(keep), "shape": g.kind}
    ctx.sig = "remap|%s|%s" % (g.kind, "all" if len(keep) == g.n else "subset")
    ctx.nontrivial = g.m() >= 2
    if not ctx.run("graph-remap", [inp, mp, out], "remap"):
        return
    o = ctx.decode("graph-remap", "remap", out)
    if o is None:
        return
    newid = {v: i for i, v in enumerate(keep)}
    exp = G.Graph(len(keep), 0)
    for s, d, w in g.edges():
        exp.adj[newid[s]].append((newid[d], b""))
    ctx.same("graph-remap", "remap", exp, o)


DIST_MODES = ["edgelist2gr", "edgelist2gr", "gr2tgr", "gr2tgr", "gr2sgr-noclean", "gr2sgr", "gr2cgr"]


def dist_sweep_list():
    return [(fam_dist, mode, np, gname) for mode in sorted(set(DIST_MODES)) for gname in ("loop", "edge", "last-isolated", "path4")
            for np in (1, 2, 3)]


def fam_dist(ctx):
    """thorough only: dist-graph-convert under mpirun (version 1, void or uint32 edge data; its edge-list reader takes
    plain 'src dst [weight]' lines only)"""
    r = ctx.r
    mode = ctx.force.get("mode") or r.pick(DIST_MODES)
    et = "void" if mode in ("gr2sgr", "gr2cgr") else r.pick(["void", "uint32"])
    np = ctx.force.get("np") or r.pick([1, 2, 2, 3])
    if ctx.force:
        g = edge_case_graph(ctx.force["graph"], et)
    else:
        g = G.gen_graph(r, et, 400, vmode=r.pick(["small", "medium", "wide", "unique"]))
    if g.m() == 0 or g.n == 0:
        g = G.gen_graph(r, et, 40, shape=r.pick(["random", "mixed", "cycle"]), vmode="unique")
    if g.m() == 0:
        g.adj[0].append((g.n - 1, G.et_pack(et, 5) if et != "void" else b""))
    keep_self = mode == "gr2cgr" and r.below(2) == 1
    if not ctx.force:
        # random cases stay in the regime the tool is written for (every host gets nodes, edges and input lines, the
        # result has edges); the degenerate partitions are covered by the deterministic sweep on the smallest graphs
        np = max(1, min(np, g.n, g.m() // 2))
        if mode in ("gr2sgr", "gr2cgr") and all(d == s_ for s_, d, _ in g.edges()):
            mode = "gr2tgr"
    ctx.params = {"family": "dist-graph-convert", "mode": mode, "edgeType": et, "hosts": np, "nodes": g.n, "edges": g.m(),
                  "shape": g.kind, "keepSelfLoops": keep_self}
    # regime classes for the keys: the tool divides nodes / input lines among hosts
    ctx.dcls = "more-hosts-than-nodes" if np > g.n else ("more-hosts-than-edges" if np > g.m() else "")
    ctx.sig = "dist|%s|%s|np%d|%s|%s" % (mode, et, np, g.kind, ctx.dcls)
    ctx.nontrivial = g.m() >= 2
    tool = "dist-graph-convert"
    out = ctx.p("out.gr")
    if mode == "edgelist2gr":
        one = r.below(3) == 0
        E = list(g.edges())
        r.shuffle(E)
        with open(ctx.p("in.txt"), "w") as f:
            for s_, d, w in E:
                f.write("%d %d%s\n" % (s_ + one, d + one, (" %d" % G.et_unpack(et, w)) if et != "void" else ""))
        ctx.obs["text_lines_in"] += len(E)
        args = ["-edgelist2gr", "-edgeType=" + et, "-numNodes=%d" % g.n] + (["-startAtOne"] if one else []) + [ctx.p("in.txt"), out]
        if not ctx.run(tool, args, mode, mpi=np):
            return
        o = ctx.decode(tool, mode, out)
        if o is not None:
            ctx.same(tool, mode, g, o)
        return
    inp = ctx.p("in.gr")
    G.write_gr(inp, g, 1)
    if mode == "gr2tgr":
        if ctx.run(tool, ["-gr2tgr", "-edgeType=" + et, inp, out], mode, mpi=np):
            o = ctx.decode(tool, mode, out)
            if o is not None:
                ctx.same(tool, mode, G.transpose(g), o)
    elif mode == "gr2sgr-noclean":
        if ctx.run(tool, ["-gr2sgr", "-symNoClean", "-edgeType=" + et, inp, out], mode, mpi=np):
            o = ctx.decode(tool, mode, out)
            if o is None:
                return
            # the reverse of every edge is added; for a self loop (its own reverse) one or two copies are accepted
            exp = G.symmetric_closure(g)
            from collections import Counter
            if o.n != exp.n or o.width != exp.width:
                ctx.same(tool, mode, exp, o)
                return
            for s_ in range(g.n):
                ce, co = Counter(exp.adj[s_]), Counter(o.adj[s_])
                for x in set(ce) | set(co):
                    lo, hi = ce[x], (2 * ce[x] if x[0] == s_ else ce[x])
                    if not (lo <= co[x] <= hi):
                        ctx.same(tool, mode, exp, o)
                        return
            ctx.obs["edges_compared"] += exp.m()
    else:
        clean_in = g if mode == "gr2cgr" else G.symmetric_closure(g)
        exp = G.Graph(g.n, 0)
        for s_ in range(g.n):
            ds = sorted(set(d for d, _ in clean_in.adj[s_] if d != s_ or keep_self))
            exp.adj[s_] = [(d, b"") for d in ds]
        args = ["-" + mode, "-edgeType=void"] + (["-keepSelfLoops"] if keep_self else []) + [inp, out]
        if exp.m() == 0 and not ctx.dcls:
            ctx.dcls = "edgeless-result"
        if not ctx.run(tool, args, mode, mpi=np):
            return
        if mode == "gr2cgr" and exp.m() == g.m() and not os.path.exists(out):
            return  # documented: an already clean graph is not rewritten
        # gr2sgr cleans its own output in place; stale bytes after the (shorter) cleaned graph do not change the graph
        o = ctx.decode(tool, mode, out, allow_trailing=(mode == "gr2sgr"))
        if o is not None:
            ctx.same(tool, mode, exp, o)


def fam_exotic(ctx):
    """thorough only: formats without a reference reader here -- the tool must run cleanly under ASan/UBSan and
    the output must carry the right counts where the format has them"""
    r = ctx.r
    mode = r.pick(["gr2bsml", "gr2totem", "gr2binarypbbs32", "gr2binarypbbs64", "gr2metis", "bipartitegr2littlepetsc",
                   "bipartitegr2bigpetsc", "svmlight2gr", "edgelist2binary"])
    et = "void"
    if mode in ("gr2totem", "bipartitegr2littlepetsc", "bipartitegr2bigpetsc", "svmlight2gr"):
        et = r.pick(["int32", "uint32", "float32", "float64"]) if mode != "gr2totem" else r.pick(["int32", "uint32"])
    elif mode == "gr2bsml":
        et = r.pick(["void", "int32", "float64"])
    shape = None
    if mode.startswith("bipartite"):
        shape = "bipartite"
    g = G.gen_graph(r, et, 300, shape=shape, vmode="small")
    if mode == "gr2metis":
        g = G.symmetric_closure(g)
    if mode == "gr2totem" and g.n == 0:
        g = G.gen_graph(r, et, 20, shape="random", vmode="small")
    ctx.params = {"family": "exotic", "mode": mode, "edgeType": et, "nodes": g.n, "edges": g.m(), "shape": g.kind}
    ctx.sig = "exotic|%s|%s|%s" % (mode, et, g.kind)
    ctx.nontrivial = g.m() >= 2
    out = ctx.p("out.bin")
    if mode == "svmlight2gr":
        L = []
        rows = r.range(1, 30)
        feats = r.range(1, 20)
        edges = 0
        for i in range(rows):
            t = [r.pick(["+1", "-1", "0", "0.5"])]
            for f in sorted(set(r.below(feats) for _ in range(1 + r.below(6)))):
                t.append("%d:%d" % (f, r.range(1, 9)))
                edges += 1
            L.append(" ".join(t))
        with open(ctx.p("in.txt"), "w") as f:
            f.write("\n".join(L) + "\n")
        if ctx.run("graph-convert", ["-svmlight2gr", "-edgeType=" + et, "-labels=" + ctx.p("labels.txt"), ctx.p("in.txt"), out], mode):
            o = ctx.decode("graph-convert", mode, out)
            if o is not None and o.m() != edges:
                ctx.violation(ctx.key("graph-convert", mode, "edge-count"), {"expected": edges, "observed": o.m()})
        return
    if mode == "edgelist2binary":
        E = list(g.edges())
        with open(ctx.p("in.txt"), "w") as f:
            f.write("".join("%d %d\n" % (s, d) for s, d, _ in E))
        if ctx.run("graph-convert", ["-edgelist2binary", ctx.p("in.txt"), out], mode):
            b = open(out, "rb").read()
            exp = b"".join(struct.pack("<II", s, d) for s, d, _ in E)
            if b != exp:
                ctx.violation(ctx.key("graph-convert", mode, "content"), {"expected_bytes": len(exp), "observed_bytes": len(b)})
        return
    inp = ctx.p("in.gr")
    G.write_gr(inp, g, 1)
    if not ctx.run("graph-convert", ["-" + mode, "-edgeType=" + et, inp, out], mode):
        return
    if mode == "gr2bsml":
        b = open(out, "rb").read()
        n1, n2, m = struct.unpack_from("<III", b, 0)
        if (n1, n2, m) != (g.n, g.n, g.m()) or len(b) != 12 + 16 * g.m():
            ctx.violation(ctx.key("graph-convert", mode, "counts"), {"header": [n1, n2, m], "bytes": len(b), "nodes": g.n, "edges": g.m()})
    elif mode.startswith("gr2binarypbbs"):
        cfg = open(out + ".config").read().split()
        adj = os.path.getsize(out + ".adj")
        if int(cfg[0]) != g.n or adj != 4 * g.m():
            ctx.violation(ctx.key("graph-convert", mode, "counts"), {"config": cfg, "adj_bytes": adj, "nodes": g.n, "edges": g.m()})
    elif mode == "gr2metis":
        h = open(out).readline().split()
        nonself = sum(1 for s, d, _ in g.edges() if s != d)
        if int(h[0]) != g.n or int(h[1]) != nonself // 2:
            ctx.violation(ctx.key("graph-convert", mode, "counts"), {"header": h, "nodes": g.n, "non_self_edges": nonself})


# ---------------------------------------------------------------------------------------------- driver glue
FAMILIES_QUICK = [(fam_text2gr, 5), (fam_gr2text, 4), (fam_gr2gr, 8), (fam_huge, 1), (fam_remap, 1)]
FAMILIES_THOROUGH = FAMILIES_QUICK + [(fam_exotic, 3)]  # half of these become dist-graph-convert cases when it is built


def sweep_list():
    """deterministic part of every run: every conversion on the smallest graphs (empty, one node, one self loop,
    isolated nodes, one edge, isolated last node), unweighted and with one weighted type"""
    L = []
    for mode in sorted(set(GR2GR_QUICK)):
        for gname in EDGE_GRAPHS:
            for et in ("void", "float32" if mode == "gr2biggr" else "uint32", "int64"):
                L.append((fam_gr2gr, mode, et, gname))
    for mode in sorted(set(GR2TEXT_MODES)):
        for gname in EDGE_GRAPHS:
            for et in ("void", "uint64"):
                L.append((fam_gr2text, mode, et, gname))
    for mode in sorted(set(TEXT_MODES)):
        for gname in EDGE_GRAPHS:
            for et in ("void", "float32"):
                L.append((fam_text2gr, mode, et, gname))
    # (mode, et) pairs the conversions map to the same effective type are run once
    seen, out = set(), []
    for fam, mode, et, gname in L:
        needs = mode in ("gr2sortedweightgr", "gr2randomweightgr", "gr2biggr", "gr2dimacs", "gr2mtx", "gr2pbbsedges", "dimacs2gr", "mtx2gr")
        onlyvoid = mode in ("nodelist2gr", "pbbs2gr")
        if (needs and et == "void") or (onlyvoid and et != "void"):
            continue
        if (mode, et, gname) not in seen:
            seen.add((mode, et, gname))
            out.append((fam, mode, et, gname))
    return out


def _run_case(idx, seed, tier, tools, root):
    ctx = Ctx(idx, seed, tier, tools, root)
    fams = FAMILIES_THOROUGH if tier == "thorough" else FAMILIES_QUICK
    tot = sum(w for _, w in fams)
    x = ctx.r.below(tot)
    fam = None
    for f, w in fams:
        if x < w:
            fam = f
            break
        x -= w
    sweep = sweep_list()
    dsweep = dist_sweep_list() if "dist-graph-convert" in tools else []
    if idx < len(sweep):
        fam, mode, et, gname = sweep[idx]
        ctx.force = {"mode": mode, "et": et, "graph": gname}
    elif idx < len(sweep) + len(dsweep):
        fam, mode, np, gname = dsweep[idx - len(sweep)]
        ctx.force = {"mode": mode, "np": np, "graph": gname}
    if fam is fam_exotic and "dist-graph-convert" in tools and ctx.r.below(2):
        fam = fam_dist
    if fam in (fam_huge,) and "graph-convert-huge" not in tools:
        fam = fam_gr2gr
    if fam in (fam_remap,) and "graph-remap" not in tools:
        fam = fam_gr2gr
    try:
        fam(ctx)
    except Inconclusive as e:
        ctx.inconclusive = str(e)
    finally:
        shutil.rmtree(ctx.dir, ignore_errors=True)
    ctx.params["component"] = ctx.params.get("family", "graph-convert") + (":" + ctx.params["mode"] if "mode" in ctx.params else "")
    return ctx


def _reap_stale(root):
    try:
        for n in os.listdir(root):
            if n[:1] in ("t", "h") and n[1:].isdigit() and not os.path.exists("/proc/" + n[1:]):
                shutil.rmtree(os.path.join(root, n), ignore_errors=True)
    except OSError:
        pass


def convert_run(ncases):
    def run(log, tier, seed):
        drv = _driver()
        tools = {}
        for t in ("graph-convert", "graph-convert-huge", "graph-remap"):
            e = drv.find_exe("asan", t)
            if e:
                tools[t] = e
        if "graph-convert" not in tools:
            log.inconclusive("graph-convert binary not found in the asan build")
            return
        if tier == "thorough":
            # optional: the MPI converter, plain dist config (built here so that a failing dist build only drops these
            # cases instead of failing the whole check)
            try:
                ok, _ = drv.ensure_built("dist", ["dist-graph-convert"])
                e = drv.find_exe("dist", "dist-graph-convert") if ok else None
                if e and shutil.which("mpirun"):
                    tools["dist-graph-convert"] = e
            except Exception:
                pass
        os.makedirs(SCRATCH_ROOT, exist_ok=True)
        _reap_stale(SCRATCH_ROOT)
        root = os.path.join(SCRATCH_ROOT, "t%d" % os.getpid())
        shutil.rmtree(root, ignore_errors=True)
        os.makedirs(root)
        n = len(sweep_list()) + (len(dist_sweep_list()) if "dist-graph-convert" in tools else 0) + ncases[tier]
        try:
            with cf.ThreadPoolExecutor(max_workers=PAR) as ex:
                results = list(ex.map(lambda i: _run_case(i, seed, tier, tools, root), range(n)))
        finally:
            shutil.rmtree(root, ignore_errors=True)
            _reap_stale(SCRATCH_ROOT)
            try:
                os.rmdir(SCRATCH_ROOT)
            except OSError:
                pass
        for ctx in results:
            log.begin(ctx.idx, ctx.params)
            for k, d in ctx.viol:
                log.violation(k, d)
            if ctx.inconclusive:
                log.inconclusive(ctx.inconclusive)
            obs = dict(ctx.obs)
            obs["tool_oracle_violations"] = len(ctx.viol)
            log.end(ctx.idx, ctx.sig, ctx.nontrivial, obs)
    return run


def c12(tier):
    runs = []
    tool_targets = [("asan", "graph-convert"), ("asan", "graph-convert-huge"), ("asan", "graph-remap")]
    if tier == "quick":
        runs.append(H("c12_files", "asan", 6000, None, timeout_per_case=20, timeout_base=120))
        runs.append(H("c12_files", "asan", 3000, "4,4,4,4", timeout_per_case=20, timeout_base=120))
        runs.append(H("c12_files", "asan", 1500, "3,5", timeout_per_case=20, timeout_base=120))
        runs.append(dict(name="convert", py=convert_run({"quick": 500, "thorough": 5000}), extra_targets=tool_targets))
    else:
        runs.append(H("c12_files", "asan", 40000, None, timeout_per_case=20, timeout_base=600))
        runs.append(H("c12_files", "asan", 15000, "4,4,4,4", timeout_per_case=20, timeout_base=600))
        runs.append(H("c12_files", "asan", 8000, "3,5", timeout_per_case=20, timeout_base=600))
        runs.append(H("c12_files", "asan", 8000, "smt:2x2x2", timeout_per_case=20, timeout_base=600))
        runs.append(dict(name="convert", py=convert_run({"quick": 500, "thorough": 5000}), extra_targets=tool_targets))
    return runs


SPEC = dict(
    runs=c12,
    technique="runtime monitoring (differential): the real FileGraph/FileGraphWriter/OCFileGraph/OfflineGraph/BufferedGraph code and the "
              "real graph-convert, graph-convert-huge and graph-remap binaries run under ASan+UBSan on generated graphs and text files; "
              "every file produced is decoded by an independent codec and compared with reference implementations of the documented result",
    level_text="Library side: graphs of the C11 shapes (empty, single node, isolated nodes, self loops, parallel edges, stars, power law, "
               "...; up to 2.5k nodes quick / 20k thorough) with edge data of 0,1,2,4,8,12,16 bytes and both edge-count parities are "
               "written through FileGraphWriter (phase1/phase2/finish, both data paths), FileGraph copy and fromGraph, saved with toFile, "
               "decoded by the reference codec and read back by the library; reference-written version-1 and version-2 files are read "
               "through fromFile, fromFileInterleaved, partFromFile (every node split point up to 12 nodes, random beyond), OCFileGraph and "
               "OCImmutableEdgeGraph segments, OfflineGraph and BufferedGraph (whole and partial) on 1-4 socket virtual topologies. Tool "
               "side: edgelist/csv/dimacs/mtx/nodelist/pbbs text with comments, blank lines, CR/LF, tabs, extra/missing weight columns, id "
               "gaps and ids up to 2*10^5 (10^6 thorough) converted to gr; gr converted to every text format and back; transpose, "
               "symmetrise, sort by destination/weight, clean, random weights, random/degree/BFS node permutations (checked against the "
               "permutation the tool reports), triangular, ring/line/tree overlays, low-degree filter, source/destination partitions and "
               "byte swapping compared with reference implementations. Held on the inputs explored, not all inputs.",
    level_note="Trusts the independent codec and reference conversions (ref/gr_codec.h self-tested by C11; lib/specs/grpy.py). Version-2 files "
               "with more than 2^32 nodes (the only way FileGraphWriter itself emits version 2) are out of reach (>32 GB); version 2 is "
               "reached through reference-written files, FileGraph copy and fromGraph.",
    rule="case = one component (writer / copy / fromGraph / one reader / one tool conversion) on one generated graph or text file; "
         "non-trivial iff the graph has >=2 edges (library side also >=2 nodes); distinct by (component or conversion, format version, "
         "edge-data width or type, edge-count parity, graph shape, size class, component variant / text features / value class)",
    require={"edges_compared": 50000, "files_decoded_by_reference": 300, "files_written_by_library": 300, "library_reads": 1000,
             "sub_ranges_read": 2000, "oc_segments_loaded": 500, "tool_runs": 500, "gr_files_decoded": 300, "v2_cases": 100,
             "odd_edge_count_with_data_cases": 200, "v2_odd_edge_count_with_data_cases": 50},
    assumptions=[
        "equality of graphs = same node count and, per node, the same multiset of (destination, edge-data bytes); the order of a node's "
        "edges is recorded but not demanded (except where an option documents a sort)",
        "version 2 has one layout: no pad word after the 64-bit destinations; reference inputs are written that way, and a "
        "library- or tool-written version-2 file whose length reveals a pad word is a violation",
        "sub-range reads use node-aligned edge ranges (the edge range of [a,b) is exactly the edges of those nodes), as produced by "
        "divideByNode and required by BufferedGraph::loadPartialGraph's documentation",
        "OCFileGraph, OCImmutableEdgeGraph, BufferedGraph, graph-remap and gr2pbbs are documented as version-1 only and get version-1 files",
        "text inputs: lines that do not match 'src dst [weight]' are expected to be ignored (the tool's own warning); for lines lacking only "
        "the weight both 'ignored' and 'weight 0' are accepted; node ids are bounded by memory (ids >= 2^32 would need > 32 GB)",
        "text weights are generated so that they parse exactly (integers in range, floats printed with 9/17 significant digits)",
        "conversions with a random result are checked through what they report or promise: node permutations against the permutation "
        "file written by -outputNodePermutation, random weights against the documented [minValue,maxValue] range",
        "overlay conversions (ring, line, tree, symmetric tree), gr2trigr, gr2lowdegreegr and the partition conversions are compared with "
        "the description in the comment above each conversion in graph-convert.cpp (the option text alone does not fix edge direction)",
    ],
)
