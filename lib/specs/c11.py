from .common import H, TOPOS_QUICK, TOPOS_THOROUGH


def c11(tier):
    runs = []
    if tier == "quick":
        # representative subset of the template matrix; every run draws different cases (salt)
        for i, t in enumerate(TOPOS_QUICK):
            runs.append(H("c11_graphs", "asan", 500, t, timeout_per_case=20, params=dict(salt=i)))
    else:
        # full (graph type x edge data x options) matrix under ASan/UBSan with asserts, larger inputs ...
        for i, t in enumerate(TOPOS_THOROUGH):
            over = t == "12,12,8"  # 32 threads on 16 cores: fewer cases
            runs.append(H("c11_graphs_full", "asan", 400 if over else 1500, t, timeout_per_case=60 if over else 30,
                          params=dict(salt=10 + i, big=1)))
        # ... and the representative subset as optimised NDEBUG code (what applications actually run)
        for i, t in enumerate([None, "4,4,4,4"]):
            runs.append(H("c11_graphs", "plain", 3000, t, timeout_per_case=20, params=dict(salt=20 + i, big=1)))
    return runs


SPEC = dict(
    runs=c11,
    technique="runtime monitoring (differential): each graph object is enumerated completely through its public API and "
              "compared with the generator's edge list; independent .gr writer (ref/gr_codec.h); ASan+UBSan with asserts; "
              "virtual topologies; seeded failpoint delays in the parallel builders and transposes",
    level_text="Generated graphs (empty, single node, isolated nodes, self loops, parallel edges, paths, cycles, stars, grids, "
               "power-law, random, dense, only-first/only-last node with edges, bipartite, mixed; up to 3000 nodes quick / 12000 "
               "thorough; edge data void/uint32/uint64/float/12-byte struct; .gr versions 1 and 2) are written by an independent "
               "writer or handed over as arrays, then built with 1..max active threads on 1-4 socket virtual topologies as "
               "LC_CSR_Graph, LC_CSR_CSC_Graph, LC_CSR_Hypergraph, LC_Linear_Graph, LC_InlineEdge_Graph, LC_Morph_Graph, "
               "LC_InOut_Graph (over CSR and Linear, symmetric and asymmetric) and LC_Adaptor_Graph with the no-lockable / "
               "numa-blocked / out-of-line-lockable / with-id / compressed-pointer / file-edge-type options. Every node, "
               "out-edge, destination and edge datum (file order), degrees, edge_begin/edge_end chaining, edges()/out_edges(), "
               "in-edges, in-place transpose (twice), sortEdgesByDst/ByEdgeData/sortEdges, sortInEdges*, findEdge and "
               "findEdgeSortedByDst answers, local_begin/local_end partitions and do_all(iterate(g)) coverage are compared "
               "with the generator's edge list. Held on the inputs and schedules observed, not all of them.",
    level_note="Trusts the reference generator/codec (self-tested, cross-checked against FileGraph both ways), x86-64 little "
               "endian, and that virtual topologies (hook) exercise the same code as real multi-socket machines. LC_Morph_Graph "
               "is compared up to isomorphism (exact when edge data are unique, else counts + colour-refinement signature).",
    rule="case = (graph family, template configuration, edge-data type, operation, generated input graph, active threads, "
         ".gr version, failpoint noise on/off) on one virtual topology; non-trivial iff at least one out- or in-edge of a real "
         "graph object was compared with the generator's edge list; distinct by (family, operation, configuration, edge type, "
         "input shape, thread class 1/mid/max, sockets, .gr version)",
    require={"edges_checked": 100000, "in_edges_checked": 10000, "transposes": 20, "find_queries": 1000,
             "sorted_lists": 1000, "local_range_threads": 500, "parallel_builds": 200, "multi_socket_cases": 50,
             "v2_files": 20, "empty_graph_cases": 5},
    assumptions=[
        "node identity of LC_Linear/LC_InlineEdge graphs is the position in begin()..end() (the only identity the API offers)",
        "LC_Morph_Graph exposes no node identity: compared up to isomorphism",
        "version-2 .gr inputs are written without padding after the 64-bit destinations (the documented layout, V2Pad::None)",
        "symmetric mode of LC_InOut_Graph is only given symmetric inputs (its documented precondition); findEdgeSortedByDst only sorted lists",
        "in-edges of a by-reference LC_CSR_CSC_Graph are compared before any later re-ordering of the out-edges",
        "readUnweighted / FileEdgeTy=void / EdgeTy=void-with-file-data cases compare the structure only",
        "per-thread local ranges are checked with the thread count the graph was built with",
        "virtual topologies come from the GALOIS_VERIF_TOPO hook; threads are not bound",
    ],
)
