from .common import H, TOPOS_QUICK, TOPOS_THOROUGH


def c11(tier):
    runs = []
    if tier == "quick":
        for i, t in enumerate(TOPOS_QUICK):
            runs.append(H("c11_graphs", "asan", 600, t, timeout_per_case=20, params=dict(salt=i)))
    else:
        for i, t in enumerate(TOPOS_THOROUGH):
            runs.append(H("c11_graphs", "asan", 1500, t, timeout_per_case=30, params=dict(salt=i)))
    return runs


SPEC = dict(
    runs=c11,
    technique="runtime monitoring (differential): every graph is enumerated completely through the public API and compared "
              "with the generator's edge list; independent .gr writer; ASan/UBSan; virtual topologies; failpoint delays",
    level_text="todo",
    level_note="todo",
    rule="todo",
    require={"edges_checked": 1000},
    assumptions=[],
)
