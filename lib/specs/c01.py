from .common import H, TOPOS_QUICK, TOPOS_THOROUGH


def c01(tier):
    runs = []
    if tier == "quick":
        for t in TOPOS_QUICK:
            runs.append(H("c01_foreach", "plain", 500, t, timeout_per_case=10))
        runs.append(H("c01_foreach", "plain", 150, "12,12,8", cpus=4, timeout_per_case=20,
                      params=dict(oversub=1, maxitems=800)))
        runs.append(H("c01_foreach", "asan", 120, "4,4,4,4", timeout_per_case=30, params=dict(maxitems=3000)))
        runs.append(H("c01_foreach", "asan", 60, None, timeout_per_case=30, params=dict(maxitems=3000)))
        # level-synchronous OBIM variants incl. pushes that are more urgent than the level being executed
        runs.append(H("c01_foreach", "plain", 160, "4,4,4,4", timeout_per_case=20, params=dict(wl="OBIM_barrier", maxitems=600)))
        # slower timing of the race-detector build opens windows the optimised build hardly ever hits
        runs.append(H("c01_foreach", "tsan", 100, "4,4,4,4", timeout_per_case=90, params=dict(maxitems=600)))
        # worklists driven directly (push / pop-until-empty rounds), ~1 ms per case
        runs.append(H("c01_direct", "plain", 1500, "4,4,4,4", timeout_per_case=10))
        runs.append(H("c01_direct", "plain", 500, None, timeout_per_case=10))
        runs.append(H("c01_direct", "plain", 400, "12,12,8", cpus=4, timeout_per_case=20, params=dict(oversub=1, maxitems=1200)))
        # the priority schedulers (bins, scan starts, master log) under the race-detector build's timing
        runs.append(H("c01_direct", "tsan", 400, "4,4,4,4", timeout_per_case=60, params=dict(maxitems=1200, wl="OBIM")))
    else:
        for t in TOPOS_THOROUGH:
            # 12,12,8 = 32 threads on 16 cores: every case is several times slower
            runs.append(H("c01_foreach", "plain", 300 if t == "12,12,8" else 1200, t, timeout_per_case=10))
            runs.append(H("c01_foreach", "asan", 200, t, timeout_per_case=40, params=dict(maxitems=8000)))
        for cpus in (2, 4):
            runs.append(H("c01_foreach", "plain", 600, "12,12,8", cpus=cpus, timeout_per_case=30,
                          params=dict(oversub=1, maxitems=1500)))
        runs.append(H("c01_foreach", "tsan", 300, "4,4,4,4", timeout_per_case=60, params=dict(maxitems=1500)))
        runs.append(H("c01_foreach", "tsan", 150, "3,5", timeout_per_case=60, params=dict(maxitems=1500)))
        for t in (None, "4,4,4,4", "3,5"):
            runs.append(H("c01_foreach", "plain", 250, t, timeout_per_case=20, params=dict(wl="OBIM_barrier", maxitems=1500)))
        for t in TOPOS_THOROUGH:
            runs.append(H("c01_direct", "plain", 1000, t, timeout_per_case=10))
        for cpus in (2, 4):
            runs.append(H("c01_direct", "plain", 1000, "12,12,8", cpus=cpus, timeout_per_case=20, params=dict(oversub=1)))
        runs.append(H("c01_direct", "tsan", 800, "4,4,4,4", timeout_per_case=60))
        runs.append(H("c01_direct", "tsan", 600, "3,5", timeout_per_case=60, params=dict(wl="OBIM")))
        runs.append(H("c01_direct", "asan", 800, "3,5", timeout_per_case=30))
    return runs


SPEC = dict(
    runs=c01,
    technique="runtime monitoring: generated operator programs through for_each on every worklist policy; a-priori work-closure, "
              "attempt-tag and loop-epoch oracles; worklist policies also driven directly (push / pop-until-empty rounds) under a conservation "
              "oracle; virtual topologies, failpoint delays, over-subscription; logical hang/livelock monitor; ASan/TSan passes",
    level_text="Thousands of generated operator programs (fan-out shapes incl. >64 pushes, pushes before/after the acquires, conflict and "
               "voluntary aborts, per-iteration allocation) are run through galois::for_each on every shipped worklist policy and "
               "parameterisation, with and without conflict detection, 1..max threads, on 1-4 socket / uneven / SMT virtual topologies, "
               "with seeded delays at failpoints inside the executor, worklists, abort queues and termination detector and with CPU "
               "over-subscription. The expected work set is computed before the loop; after it every item must have committed exactly "
               "once, every started item must carry the tag of its parent's committing attempt, nothing runs after return, and a logical "
               "monitor decides 'always returns'. A second harness drives the worklist policies that need no executor co-operation directly "
               "(push phases, pop-until-empty rounds with children pushed at earlier/later priorities, sparse priorities so that "
               "every item has its own bin) and demands that after a round in which no thread could pop anything every pushed item "
               "has been popped exactly once. Held on the executions observed, not all schedules.",
    level_note="Trusts the harness oracles (independent of the runtime's own counters), x86 for the relaxed-atomic bookkeeping, the "
               "/proc-based hang monitor; virtual topologies stand in for real multi-socket machines; parallel_break loops and the "
               "deterministic executor (C07) are outside this check.",
    rule="case = (worklist instantiation, conflict detection on/off, per-iteration allocator, thread count, generated program: "
         "initial items, fan-out shape, neighbourhoods over 1-256 lockables, voluntary aborts, delays, failpoint noise) on one virtual "
         "topology; non-trivial iff >=2 threads committed items and (>=1 aborted attempt or >=1 pushed item); distinct by "
         "(worklist, cd, sockets, threads, item count, object count, aborts seen, threads that committed)",
    require={"items_committed": 10000, "aborted_attempts": 100, "multi_socket_cases": 10, "direct_cases": 1000, "items_popped": 100000},
    assumptions=["operator programs are pure functions of the item id; the work closure is computed before the loop",
                 "an attempt is 'committed' for the oracle once it passed its last acquire and its voluntary-abort decision",
                 "virtual topologies come from the GALOIS_VERIF_TOPO hook; threads are not bound"],
)
