from .common import H, TOPOS_QUICK, TOPOS_THOROUGH


def c10(tier):
    runs = []
    if tier == "quick":
        for t in TOPOS_QUICK:
            runs.append(H("c10_morph", "plain", 240, t, timeout_per_case=8))
        runs.append(H("c10_sepinout", "plain", 120, "4,4,4,4", timeout_per_case=8))
        runs.append(H("c10_morph", "asan", 80, "4,4,4,4", timeout_per_case=20, params=dict(maxitems=1200)))
        runs.append(H("c10_sepinout", "asan", 40, "3,5", timeout_per_case=20, params=dict(maxitems=1200)))
    else:
        for t in TOPOS_THOROUGH:
            runs.append(H("c10_morph", "plain", 500, t, timeout_per_case=8))
            runs.append(H("c10_sepinout", "plain", 160, t, timeout_per_case=8))
        for t in (None, "4,4,4,4", "3,5"):
            runs.append(H("c10_morph", "asan", 250, t, timeout_per_case=20, params=dict(maxitems=2500)))
        runs.append(H("c10_sepinout", "asan", 120, "4,4,4,4", timeout_per_case=20, params=dict(maxitems=2500)))
        # more threads than CPUs: owners are descheduled while owning
        for cpus in (2, 4):
            runs.append(H("c10_morph", "plain", 120, "12,12,8", cpus=cpus, timeout_per_case=30,
                          params=dict(maxitems=2500, mode="loop")))
        # TSan only as a further schedule-perturbing configuration (reports are not judged here)
        runs.append(H("c10_morph", "tsan", 200, "4,4,4,4", timeout_per_case=25, params=dict(maxitems=1500)))
        runs.append(H("c10_sepinout", "tsan", 80, "3,5", timeout_per_case=25, params=dict(maxitems=1500)))
    return runs


SPEC = dict(
    runs=c10,
    technique="runtime monitoring: generated mutation programs on real MorphGraph / Morph_SepInOut_Graph flavours inside "
              "galois::for_each (cautious three-phase items and single-call 'bare' items), commit-ticket order, serial "
              "replay on a fresh graph of the same type and on an independent std::map model, structural invariants through "
              "the public API; sequential differential testing against the model after every call; ASan/UBSan second pass",
    level_text="Generated programs (createNode+addNode, removeNode, addEdge with duplicate check, addMultiEdge, removeEdge via "
               "findEdge / enumeration / findInEdge / removeInEdge, findEdge, findEdgeSortedByDst, findInEdge, node and edge "
               "data updates through out- and in-iterators, neighbourhood enumeration, sortEdgesByDst) over overlapping node "
               "sets run on 11 graph flavours (directed, directed in/out, undirected, each also with sorted neighbours; "
               "no-lockable undirected / in-out / sorted driven with explicit UNPROTECTED flags under harness partition "
               "locks; Morph_SepInOut_Graph in/out, in/out sorted, undirected) with 1..max threads on 1-4 socket virtual "
               "topologies, with slow owners and failpoint/spin noise. After every loop: no node left owned, committed "
               "items replayed in ticket order on a fresh graph of the same type (dump and every recorded result equal) "
               "and on an independent adjacency model (equal), reverse entries exist and share the data cell, no edge to a "
               "removed node, sorted adjacency sorted, begin/end and per-thread local_begin/local_end yield each live node "
               "exactly once. Sequential cases compare graph and model after every single call. Held on the executions "
               "observed, not on all schedules.",
    level_note="Trusts the ticket clock (relaxed RMW on one location, taken while all locks of the item are held) as the "
               "serialisation order, x86-TSO, and that virtual topologies exercise the same code as real multi-socket "
               "machines. Which of several parallel edges findEdge/addEdge returns is treated as unspecified (any member "
               "is accepted). MorphHyperGraph is not exercised.",
    rule="case = (graph flavour, mode sequential|cautious|bare|readd-probe, threads, initial nodes/edges, item programs of "
         "1-4 calls, feature class multi-edges/self-loops/node-removal, delays, noise) on one virtual topology; a loop case is "
         "non-trivial iff >=2 threads committed items and >=1 attempt was aborted by a conflict; a sequential case iff >=10 "
         "calls were compared with the model; distinct by (flavour, mode, sockets, threads, node counts, items, partitions, "
         "feature class, aborts seen, number of committing threads)",
    require={"commits": 20000, "aborted_attempts": 2000, "loop_cases_with_aborts_and_2_threads": 30,
             "multi_socket_cases": 20, "stepwise_model_checks": 5000, "ops_replayed_serially": 20000,
             "nodes_created_in_loop": 200, "nodes_removed_in_loop": 20, "edges_removed_in_loop": 200,
             "nodes_via_local_iterators": 1000, "locks_checked_free": 1000},
    assumptions=[
        "a node handle is added to the graph at most once: addNode() on a handle that was removed with removeNode() is not "
        "defined by the API documentation and is not part of the judged workload (it is probed and counted in "
        "readd_probes_asymmetric, never a violation)",
        "edges are only created between nodes that are in the graph; operations on removed nodes are not issued "
        "(containsNode is asked first)",
        "only cautious items (every node acquired before the first mutation) and single-call items are serialisable by "
        "contract: MorphGraph has no undo log",
        "an undirected self-loop occupies two adjacency entries of its node (both endpoints' entries) and is expected to "
        "be enumerated twice",
        "a freshly created edge's data is value-initialised (0) when no initialiser is passed",
        "x86-TSO; virtual topologies come from the GALOIS_VERIF_TOPO hook; threads are not bound",
    ],
)
