from .common import H

# Case plan sizes of the two harnesses (printed by `<harness> --param plan=1`): cases [0,E) are the exhaustively
# enumerated sub-spaces (fixed slices), cases >= E cycle through the R random families.
E_BLOCKS, R_BLOCKS = 66, 46
E_GRAPH_QUICK, E_GRAPH_THOROUGH, R_GRAPH = 40, 41, 78
R_GRAPHOBJ = 14  # random families of the graph-object components (--param focus=graphobj)

ENV = dict(GALOIS_DEBUG_SKIP=1)  # Debug builds: do not print gDebug lines (their arguments are still evaluated)


def c13(tier):
    runs = []
    if tier == "quick":
        runs.append(H("c13_blocks", "asan", E_BLOCKS + 3 * R_BLOCKS, None, env=ENV, timeout_per_case=30))
        runs.append(H("c13_graphdiv", "asan", E_GRAPH_QUICK + R_GRAPH, None, env=ENV, timeout_per_case=60))
        # release code path (NDEBUG: no asserts, -O2) of everything; salt => other random inputs than the asan runs
        runs.append(H("c13_blocks", "plain", E_BLOCKS + 3 * R_BLOCKS, "3,5", env=ENV, params=dict(salt=1),
                      timeout_per_case=30))
        runs.append(H("c13_graphdiv", "plain", E_GRAPH_QUICK + R_GRAPH, None, env=ENV, params=dict(salt=1),
                      timeout_per_case=60))
        # thread/socket dependent parts on multi-socket virtual topologies
        runs.append(H("c13_graphdiv", "asan", R_GRAPHOBJ, "4,4,4,4", env=ENV, params=dict(focus="graphobj", salt=2),
                      timeout_per_case=60))
        runs.append(H("c13_graphdiv", "plain", R_GRAPHOBJ, "3,5", env=ENV, params=dict(focus="graphobj", salt=3),
                      timeout_per_case=60))
    else:
        runs.append(H("c13_blocks", "asan", E_BLOCKS + 6 * R_BLOCKS, None, env=ENV, timeout_per_case=60))
        runs.append(H("c13_graphdiv", "asan", E_GRAPH_THOROUGH + 3 * R_GRAPH, None, env=ENV, timeout_per_case=240))
        runs.append(H("c13_blocks", "plain", E_BLOCKS + 6 * R_BLOCKS, "3,5", env=ENV, params=dict(salt=1),
                      timeout_per_case=60))
        runs.append(H("c13_graphdiv", "plain", E_GRAPH_THOROUGH + 4 * R_GRAPH, None, env=ENV, params=dict(salt=1),
                      timeout_per_case=240))
        # thread/socket dependent parts on other virtual topologies (no over-subscribed ones: on_each per graph)
        for salt, (cfg, topo) in enumerate((("asan", "4,4,4,4"), ("plain", "3,5"), ("asan", "smt:2x2x2"),
                                            ("asan", "1,1,1,1")), 2):
            runs.append(H("c13_graphdiv", cfg, R_GRAPHOBJ, topo, env=ENV, params=dict(focus="graphobj", salt=salt),
                          timeout_per_case=240))
        # DistGraph host ranges (libcusp computeMasters): dist build, 1..4 MPI hosts
        for np in (1, 2, 3, 4):
            runs.append(H("c13_dist", "dist", 8, None, env=ENV, mpi=np, params=dict(salt=np),
                          timeout_per_case=120, timeout_base=180))
    return runs


SPEC = dict(
    runs=c13,
    technique="runtime monitoring: every part index of every division routine is called on generated inputs and the returned "
              "pieces are judged by an independent tiling oracle (ref/c13_tiling.h); exhaustive enumeration of small "
              "sub-spaces, random large inputs, sizes at the integer-overflow thresholds under UBSan/ASan with asserts on, "
              "plus the NDEBUG release build",
    level_text="block_range (5 integer types, 8 iterator types), split_range (single split and recursive bisection), "
               "StandardRange/SpecificRange/LocalRange pairs evaluated on pool threads for 1..max threads, "
               "determine_block_division, divideNodesBinarySearch (node/edge weights incl. 0, scale factors incl. 0, node/edge "
               "offsets, vector/LargeArray/pointer/PODResizeableArray/formula prefix sums, uint32/uint64 nodes), "
               "determineUnitRangesFromPrefixSum/FromGraph (whole and sub-range), FileGraph::divideByNode/divideByEdge "
               "(FileGraphWriter, fromFile, partFromFile), OfflineGraph::divideByNode (v1/v2 files, scale factors), "
               "LC_CSR_Graph thread ranges (readGraph with blocked and NUMA local ranges, constructFrom(prefix)+"
               "initializeLocalRanges, member divideByNode) and, in the thorough tier, DistGraph::computeMasters host ranges "
               "under MPI. Exhaustive (quick tier bounds): all (size<=200, parts<=40, index) triples of block_range for each "
               "of the 13 types; all prefix sums of <=7 nodes with degrees in {0,1,2,5} x parts 1..9 x 5 weightings for "
               "divideNodesBinarySearch and x 3 node weights for determineUnitRangesFromPrefixSum; <=6 nodes for all sub-ranges, "
               "all node/edge offsets, FromGraph and FileGraph::divideByNode; <=5 nodes for all scale-factor vectors over "
               "{0..3} with <=4 parts, OfflineGraph and divideByEdge; all thread_beginnings/sub-range combinations of <=6 nodes "
               "and <=4 threads for SpecificRange. Everything else is sampled (random large inputs, 2^32 parts, sizes at the "
               "overflow thresholds). The statement's proof for all 64-bit sizes is NOT established: only the enumerated and "
               "sampled inputs were observed.",
    level_note="Trusts the reference oracle (60 lines, no Galois code) and, for non-random-access iterators, that element i of "
               "the test containers holds i. With 2^32 parts only windows of part indices are called; the oracle then only "
               "draws conclusions that are valid for the sampled indices.",
    rule="case = one routine (component) x one input family: an exhaustive slice (fixed), or a random family (degree "
         "distribution / container type / scale factors / offsets / overflow threshold / more parts than elements / thread "
         "counts); each case makes thousands of calls (obs.calls) grouped in divisions (all part indices of one input). "
         "Non-trivial iff at least one division returned >=2 non-empty pieces. Distinct by (component, family, variant/slice, "
         "whether divisions with more parts than elements, zero-sized inputs and sampled part indices occurred).",
    # minimum observed totals of a complete run (quick tier values; the exhaustive counters are deterministic:
    # e.g. block_range_int = 5 types x 201 sizes x 820 (parts,index) pairs x 2 build configs)
    require={"calls": 40_000_000, "divisions": 8_000_000, "multi_piece_divisions": 5_000_000,
             "exhaustive_triples": 52_000_000,
             "exhaustive_triples.block_range_int": 1_648_200, "exhaustive_triples.block_range_iter": 2_637_120,
             "exhaustive_triples.divideNodesBinarySearch": 25_000_000,
             "exhaustive_triples.determineUnitRangesFromPrefixSum": 17_900_000,
             "exhaustive_triples.determineUnitRangesFromGraph": 2_200_000,
             "exhaustive_triples.FileGraph::divideByNode": 780_000, "exhaustive_triples.OfflineGraph::divideByNode": 750_000,
             "exhaustive_triples.StandardRange": 600_000, "exhaustive_triples.SpecificRange": 200_000,
             "more_parts_than_elems": 3_000_000, "zero_size_inputs": 1_000_000, "threshold_divisions": 8_000,
             "sampled_divisions": 3_000, "empty_pieces": 15_000_000, "secondary_range_checks": 5_000_000,
             "parts_loaded": 50},
    assumptions=[
        "Domain of block_range: id < num, num >= 1, begin <= end, and no overflow of the round-up quotient as the routine "
        "evaluates it: (end-begin)+num <= max for signed types, (end-begin)+num-1 <= max for unsigned types. At exactly "
        "(end-begin)+num == max+1 the signed overloads overflow in the intermediate (dist + num) although dist+num-1 fits "
        "(observed under UBSan, reported, treated as the overflow threshold itself and not as a violation).",
        "block_range's integer overload does not compile for int/short/char (std::max/min of mixed types); only unsigned, "
        "long, unsigned long, long long, unsigned long long are exercised.",
        "counting_iterator<uint64_t> positions are kept below 2^63 (boost computes its distances in signed long).",
        "Empty pieces may be positioned anywhere (the routines return (end,end), (0,0) or (last,last) for parts without work).",
        "divideNodesBinarySearch domain: not both weights zero, scale factor vector empty or of size `total` with a non-zero "
        "sum, total weight below 2^62, numEdges/edgeOffset consistent with the prefix sum as at the call sites.",
        "FileGraph::divideByEdge node ranges may stop after the last node that has edges (documented in FileGraph.h); only "
        "its edge ranges are required to cover exactly.",
        "SpecificRange domain: thread_beginnings tile [0,N) and the executed range is a sub-range of it, or they tile exactly "
        "the executed range (DistGraph master ranges, NewGeneric).",
        "LC_CSR_Graph local ranges are queried with the same active thread count that was used to construct the graph.",
        "DistGraph host ranges (libcusp computeMasters, all three master distributions, decompose factor, scale factors "
        ">= 1) are covered only in the thorough tier (dist build, 1..4 MPI hosts; BALANCED_MASTERS also for 1..12 simulated "
        "hosts); the empty graph is not passed to BALANCED_MASTERS_AND_EDGES (it divides by the node count). The quick "
        "tier covers the underlying OfflineGraph::divideByNode and block_range<uint64_t> calls directly.",
    ],
)
