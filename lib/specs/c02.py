from .common import H, TOPOS_QUICK, TOPOS_THOROUGH

P = dict(focus="c02")


def c02(tier):
    runs = []
    if tier == "quick":
        for t in TOPOS_QUICK:
            runs.append(H("c01_foreach", "plain", 400, t, timeout_per_case=15, params=dict(P, maxitems=3000)))
        runs.append(H("c01_foreach", "plain", 120, "12,12,8", cpus=4, timeout_per_case=30,
                      params=dict(P, oversub=1, maxitems=600)))
        runs.append(H("c01_foreach", "asan", 100, "4,4,4,4", timeout_per_case=40, params=dict(P, maxitems=2000)))
        runs.append(H("c01_foreach", "asan", 60, "3,5", timeout_per_case=40, params=dict(P, maxitems=2000)))
    else:
        for t in TOPOS_THOROUGH:
            runs.append(H("c01_foreach", "plain", 1500, t, timeout_per_case=15, params=dict(P, maxitems=8000)))
            runs.append(H("c01_foreach", "asan", 250, t, timeout_per_case=60, params=dict(P, maxitems=4000)))
        for cpus in (2, 4):
            runs.append(H("c01_foreach", "plain", 500, "12,12,8", cpus=cpus, timeout_per_case=40,
                          params=dict(P, oversub=1, maxitems=1000)))
        runs.append(H("c01_foreach", "tsan", 300, "4,4,4,4", timeout_per_case=90, params=dict(P, maxitems=1000)))
        runs.append(H("c01_foreach", "tsan", 150, None, timeout_per_case=90, params=dict(P, maxitems=1000)))
    return runs


SPEC = dict(
    runs=c02,
    technique="runtime monitoring: commit-point ownership stamps, version stability, owner probes, ticket-order serial replay of "
              "generated cautious operators under contention; failpoint delays between try-lock and owner store; ASan/TSan passes",
    level_text="Generated cautious operators with overlapping neighbourhoods (1-16 of 1-64 lockables, duplicates, READ/WRITE/UNPROTECTED "
               "flags, slow owners, voluntary aborts, per-iteration allocations) run through for_each with conflict detection on every "
               "worklist policy, 2..max threads, 1-4 socket topologies (both abort-forwarding policies), with delays injected between the "
               "lock acquisition and the owner store and between unlink and release. Monitors: an object's version read right after "
               "acquiring it is unchanged at the commit point; harness stamps written into owned objects are never foreign and survive "
               "a delay; a thread never still owns anything of its previous attempt; after the loop every lockable is free; replaying "
               "the committed iterations one at a time in ticket (commit) order on a sequential model reproduces every object's value, "
               "version and per-object log exactly (non-commutative updates that read the whole neighbourhood); per-iteration "
               "allocations keep their canaries until the commit point, the page pool does not grow with the number of attempts, and in "
               "abort storms (every item aborts voluntarily on its first 4-40 attempts, 256 KiB per attempt) it stays at about one page "
               "per thread, far below what 'kept until the thread's next commit' would hold. "
               "Held on the executions observed.",
    level_note="Trusts the harness's stamps/tickets (relaxed atomics on x86), that an aborted attempt leaves no harness state in shared "
               "memory (writes happen only after the last acquire), and LockManagerBase's protected accessors used by the probe.",
    rule="case = (worklist, threads, generated cautious program over few lockables, delays, noise) with conflict detection; non-trivial "
         "iff >=2 threads committed and (>=1 aborted attempt or work was pushed); distinct by (worklist, sockets, threads, items, objects, aborts seen, threads used)",
    require={"commits_with_objects_replayed": 10000, "aborted_attempts": 1000, "multi_socket_cases": 10,
             "per_iter_alloc_growth_cases": 1},
    assumptions=["ticket taken while holding all locks => ticket order is a valid serialisation order for two-phase locking",
                 "a double ownership whose second owner aborts before its commit point without writing is invisible (and harmless to a cautious operator)"],
)
