from .common import H, TOPOS_QUICK

# TSan is used only as a third, schedule-perturbing build (value oracles decide); its reports about Galois
# internals are counted in the evidence and must not turn into an exit code of the harness process.
TSAN_ENV = dict(TSAN_OPTIONS="halt_on_error=0:report_signal_unsafe=0:history_size=4:second_deadlock_stack=0:exitcode=0")

# One harness (c16_pstl); one case = one ParallelSTL algorithm x one generated input x one thread count.
# Quick: asan + plain on the three quick topologies. Thorough: the same scaled up, more topologies (incl. 32 and
# 48 pool threads on 16 CPUs: partial_sum's empty trailing blocks need more threads than ~sqrt(n)) and tsan as a
# further schedule-perturbing config (value oracles only; TSan reports are counted, never a verdict here).


def c16(tier):
    runs = []
    if tier == "quick":
        for i, t in enumerate(TOPOS_QUICK):
            runs.append(H("c16_pstl", "plain", 1000, t, timeout_per_case=20, params=dict(salt=2 * i)))
            runs.append(H("c16_pstl", "asan", 350, t, timeout_per_case=40, params=dict(salt=2 * i + 1)))
        # 48 pool threads: the only way to reach partial_sum's empty trailing blocks (boost = partial_sum)
        runs.append(H("c16_pstl", "plain", 150, "12,12,12,12", timeout_per_case=60,
                      params=dict(maxn=20000, boost=6, salt=20)))
    else:
        for i, t in enumerate([None, "8,8", "4,4,4,4", "3,5", "1,1,1,1", "smt:2x2x2"]):
            runs.append(H("c16_pstl", "plain", 5000, t, timeout_per_case=20, params=dict(salt=2 * i)))
            runs.append(H("c16_pstl", "asan", 1200, t, timeout_per_case=40, params=dict(salt=2 * i + 1)))
        runs.append(H("c16_pstl", "plain", 1000, "12,12,8", timeout_per_case=60, params=dict(maxn=20000, salt=20)))
        runs.append(H("c16_pstl", "plain", 1000, "12,12,12,12", timeout_per_case=60,
                      params=dict(maxn=20000, boost=6, salt=21)))
        # threads >> CPUs: arbitrary-point preemption between the block claims
        runs.append(H("c16_pstl", "plain", 400, "12,12,8", cpus=4, timeout_per_case=120,
                      params=dict(maxn=20000, salt=22)))
        runs.append(H("c16_pstl", "tsan", 1000, None, timeout_per_case=90, env=TSAN_ENV, params=dict(salt=30)))
        runs.append(H("c16_pstl", "tsan", 1000, "4,4,4,4", timeout_per_case=90, env=TSAN_ENV, params=dict(salt=31)))
    return runs


SPEC = dict(
    runs=c16,
    technique="runtime monitoring: the real ParallelSTL entry points run on generated inputs and are compared with "
              "the std:: algorithms; instrumented user function objects / iterators (call counts per pool thread, "
              "range check of every element they are applied to, value-, position- and thread-dependent delays); "
              "ASan+UBSan with Galois asserts on, guard pages around raw-pointer inputs",
    level_text="sort, partition, count_if, find_if, accumulate, map_reduce, partial_sum and destroy are called through "
               "std::vector / raw-pointer / std::deque / std::list / boost::counting_iterator / user-defined checked "
               "random-access iterators, on u32 and {key,id} elements, for sizes 0..100000 (0, 1, around the 1024 "
               "cut-off, block multiples and non-multiples), key patterns (all-equal, sorted, reversed, few distinct, "
               "organ-pipe, ...), predicate patterns (all-true/false, halves, alternating, whole-block, mirrored, "
               "single element, sparse), comparators (<, >, modular classes, total order, two-argument form), "
               "1..max threads on 1-4 socket virtual topologies, with delays inside predicates/comparators/iterator "
               "arithmetic and failpoint/spin noise that decide which thread claims which block. Oracles: partition = "
               "valid partition point + permutation; sort = ordered by the comparator + permutation (stability not "
               "required); find_if = last iff no match else any matching element; count_if/accumulate/map_reduce/"
               "partial_sum = the std:: value (exact arithmetic only); destroy = every destructor exactly once. "
               "Held on the executions observed, not on all inputs or interleavings.",
    level_note="Trusts libstdc++'s std::partition/sort/partial_sum/accumulate as reference, the region hook to tell the "
               "parallel phase from the caller-side clean-up, and that virtual topologies exercise the same code as real "
               "multi-socket machines. Reductions are only checked for associative+commutative operations whose "
               "identity argument is a true identity (what Reducible documents).",
    rule="case = (component, iterator kind, element type, size, key/predicate pattern, comparator/operation, delay "
         "pattern, thread count) on one virtual topology; non-trivial iff the input is above the component's serial "
         "cut-off so that Galois' own parallel code runs (sort/partition n > 1024, partial_sum n >= 1024, others n >= 1; "
         "the scalar destroy overload is trivial); distinct by (component, iterator, element type, n, threads, sockets, "
         "pattern, comparator/operation, delay kind, observed outcome class, number of pool threads that executed a "
         "user function object)",
    require={"cases_sort": 30, "cases_partition": 60, "cases_count_if": 15, "cases_find_if": 25, "cases_accumulate": 15,
             "cases_map_reduce": 15, "cases_partial_sum": 20, "cases_destroy": 5,
             "parallel_path_cases": 300, "multi_thread_cases": 150, "multi_socket_cases": 50,
             "delays_injected": 1000, "find_if_cases_with_match": 10, "find_if_cases_without_match": 3,
             "partition_serial_cleanup_calls": 1000, "sort_unstable_adjacent_pairs": 1,
             "partial_sum_cases_with_empty_blocks": 1, "partition_no_leftover_cases": 5,
             "partition_cases_2plus_threads_claimed_blocks": 100, "partition_cases_4plus_threads_claimed_blocks": 5},
    assumptions=["std:: algorithms of libstdc++ are the reference",
                 "binary operations given to accumulate/map_reduce are associative and commutative and the identity "
                 "argument is their identity (Reducible's documented contract); floating-point inputs are exactly summable",
                 "virtual topologies come from the GALOIS_VERIF_TOPO hook; threads are not bound",
                 "the three-argument accumulate(first,last,identity) overload is not exercised: it does not compile "
                 "(its unqualified inner call is ambiguous with std::accumulate via ADL); performance (the quadratic "
                 "behaviour of sort on one dominating key) is outside the statement"],
)
