from .common import H, TOPOS_QUICK


def c16(tier):
    runs = []
    if tier == "quick":
        for t in TOPOS_QUICK:
            runs.append(H("c16_pstl", "plain", 700, t, timeout_per_case=20))
            runs.append(H("c16_pstl", "asan", 300, t, timeout_per_case=40))
    else:
        for t in [None, "8,8", "4,4,4,4", "3,5", "1,1,1,1", "smt:2x2x2"]:
            runs.append(H("c16_pstl", "plain", 5000, t, timeout_per_case=20))
            runs.append(H("c16_pstl", "asan", 1500, t, timeout_per_case=40))
        runs.append(H("c16_pstl", "tsan", 600, None, timeout_per_case=90))
        runs.append(H("c16_pstl", "tsan", 600, "4,4,4,4", timeout_per_case=90))
    return runs


SPEC = dict(
    runs=c16,
    technique="runtime monitoring: differential testing of the real ParallelSTL entry points against std:: algorithms",
    level_text="",
    level_note="",
    rule="",
    require={},
    assumptions=[],
)
