from .common import H

# component groups: one harness process per group and config, so that the crash/restart budget of the driver
# (a sanitizer abort loses one case and restarts the process) is per group and a defect in one container family
# cannot starve the others
GROUPS = {
    "deque": "gdeque,FixedSizeRing,FixedSizeBag,ConcurrentFixedSizeBag",
    "lists": "gslist,ConcurrentGslist,InsertBag",
    "arrays": "flat_map,PODResizeableArray,LazyArray,LazyObject,optional,LargeArray,CopyableTuple",
    "pq": "MinHeap,ThreadSafeMinHeap,ThreadSafeOrderedSet",
    "twolevel": "TwoLevelIterator,TwoLevelIteratorA",
}

COMPONENTS = sorted(c for g in GROUPS.values() for c in g.split(","))


# cases per group and process: (asan, plain)
CASES = {"deque": (24000, 6000), "lists": (20000, 6000), "arrays": (24000, 6000), "pq": (16000, 5000),
         "twolevel": (20000, 6000)}


def c14(tier):
    # thorough = the quick workload with 12 different sequence families (salt); the number of processes, not the
    # size of one process, grows, so that the restart budget per process stays the same
    salts = [0] if tier == "quick" else list(range(1, 13))
    runs = []
    for salt in salts:
        for g, comps in GROUPS.items():
            for i, cfg in enumerate(("asan", "plain")):
                params = dict(comps=comps)
                if salt:
                    params["salt"] = salt
                runs.append(H("c14_containers", cfg, CASES[g][i], None, params=params,
                              timeout_per_case=1, timeout_base=300))
    return runs


_require = {"ops": 10000, "traversals_compared": 10000, "elements_compared": 50000, "results_compared": 10000,
            "constructs": 10000, "destroys": 10000, "multi_block_states": 1000}
for _c in COMPONENTS:
    _require["cases_" + _c] = 20

SPEC = dict(
    runs=c14,
    technique="runtime monitoring: differential lock-step execution of random operation sequences against std:: models, "
              "instrumented element type with a live-instance registry, ASan+UBSan with Galois asserts on",
    level_text="Each of 19 container components (gdeque, FixedSizeRing, FixedSizeBag, ConcurrentFixedSizeBag, gslist, "
               "concurrent_gslist, InsertBag, flat_map, PODResizeableArray, LazyArray, LazyObject, optional, LargeArray, "
               "CopyableTuple, MinHeap, ThreadSafeMinHeap, ThreadSafeOrderedSet, TwoLevelIterator.h and TwoLevelIteratorA.h "
               "iterators) is driven from one thread with thousands of random operation sequences of up to 200 operations "
               "(chunk sizes 1, 2, 3, 4, 64; element type with non-trivial lifetime and its trivially copyable twin); after "
               "every operation its result, size, forward, backward and const traversals are compared with a std:: model and "
               "the registry of live element instances is checked (constructed and destroyed exactly once, never used outside "
               "the lifetime, as many live instances as elements). Held on the sequences explored, not on all sequences.",
    level_note="Trusts the std:: models (libstdc++), the registry (keyed by object address) and ASan/UBSan; operations whose "
               "use is a compile error (listed in the assumptions) cannot be monitored at run time.",
    rule="case = (container component, chunk/block size, element type, enabled operation classes, one random operation "
         "sequence); non-trivial iff >= 8 operations were executed, the container held >= 2 elements at some point and >= 3 "
         "distinct operation kinds occurred; distinct by (component, configuration, hash of the executed operation sequence)",
    require=_require,
    assumptions=[
        "single-threaded use with one active Galois thread; the 'concurrent'/'thread-safe' variants are only used sequentially",
        "bags (FixedSizeBag, concurrent_gslist, InsertBag, MinHeap iteration) are compared as multisets: their iteration order is unspecified",
        "InsertBag::pop(): only the first pop after a push must succeed (documented: the number of consecutive pops is implementation dependent); a refused later pop (std::out_of_range) is accepted",
        "MinHeap/ThreadSafeMinHeap::remove(x) may take out one or all copies of x (the code does either depending on whether x is the top); only 'at least one copy went, nothing else changed' is demanded",
        "the state of a moved-from container is not inspected, it only has to be destructible",
        "LargeArray: every element is constructed before destroy()/~LargeArray() run, and destroy() is always followed by deallocate() or construct() (the destructor destroys again otherwise)",
        "a non-returning operation is detected by thread CPU time (2 s without completing one operation on <= a few hundred elements), never by wall-clock",
        "element types: 8-byte tracked/POD twins everywhere; 12-, 20- and 24-byte (alignment 4 and 8) tracked/POD elements in InsertBag (block sizes 128/256/1024 bytes, optionally two bags filled alternately), gdeque, FixedSizeRing and gslist; a block of BlockSize bytes must not receive more than BlockSize/sizeof(T) elements at consecutive addresses",
        "elements with alignment > 8 are not used: FixedSizeHeap/BumpHeap align blocks to 8 bytes only, so InsertBag<T,BlockSize>, gdeque and gslist place alignas(16)/alignas(64) elements at misaligned addresses on the fixed tree as well (allocator limitation, outside this property's statement)",
        "flat_map range constructors and insert(first,last) follow std::map: of several elements with equivalent keys the first of the input range survives (inputs of 0..200 elements with heavy key duplication are compared element by element, keys and mapped values)",
        "after 30 fatal errors of one component in one process family the remaining cases of that component are skipped and counted (cases_skipped_after_crash_cap); never reached on the fixed tree",
        "fatal errors (sanitizer report, failed Galois assert, signal) inside a case are classified in-process from the captured stderr and keyed C14:<component>:<check in flight or error class>-after-<operation>",
        "not monitorable at run time because they do not compile when used: LazyArray::at, flat_map::upper_bound/equal_range/operator==, optional<T>(optional<U>), InsertBag::begin()/end() const and InsertBag::const_iterator",
    ],
)
