from .common import H, TOPOS_QUICK, TOPOS_THOROUGH

# TSan is used purely as another schedule-perturbing configuration with the same value oracles: reports inside
# Galois internals are not C15 violations, so the process must not exit 66 because of them.
TSAN_ENV = {"TSAN_OPTIONS": "halt_on_error=0:report_signal_unsafe=0:history_size=4:second_deadlock_stack=0:exitcode=0"}

EXH = "DynamicBitSet.reset_range_exhaustive"


def c15(tier):
    runs = []
    if tier == "quick":
        for t in TOPOS_QUICK:
            runs.append(H("c15_collections", "plain", 500, t, timeout_per_case=20))
        # reset(begin,end): 50 cases x 4 sizes = every size 1..200, every (begin,end) pair, 2 fill patterns
        runs.append(H("c15_collections", "plain", 50, None, params=dict(only=EXH, band=4), timeout_per_case=30))
        runs.append(H("c15_collections", "asan", 50, None, params=dict(only=EXH, band=4), timeout_per_case=60))
        for t in ("4,4,4,4", None):
            runs.append(H("c15_collections", "asan", 250, t, timeout_per_case=40))
    else:
        for t in TOPOS_THOROUGH:
            runs.append(H("c15_collections", "plain", 1000 if t == "12,12,8" else 2500, t, timeout_per_case=20))
        runs.append(H("c15_collections", "plain", 100, None, params=dict(only=EXH, band=2), timeout_per_case=30))
        runs.append(H("c15_collections", "asan", 100, None, params=dict(only=EXH, band=2), timeout_per_case=60))
        for t in (None, "4,4,4,4", "3,5", "smt:2x2x2"):
            runs.append(H("c15_collections", "asan", 1000, t, timeout_per_case=40))
        for t in ("4,4,4,4", None):
            runs.append(H("c15_collections", "tsan", 500, t, timeout_per_case=90, env=TSAN_ENV))
        # few CPUs, many threads: long preemptions inside CAS loops / between per-thread updates and reduce
        runs.append(H("c15_collections", "plain", 300, "12,12,8", cpus=3, timeout_per_case=90))
    return runs


SPEC = dict(
    runs=c15,
    technique="runtime monitoring / differential testing against sequential models: generated update assignments executed on "
              "the real thread pool (on_each with explicit assignments, do_all with/without stealing, for_each), virtual "
              "topologies, failpoint and in-operator delays, ASan/UBSan (asserts on) and TSan builds as further schedules",
    level_text="Every reducible (GAccumulator +=/-=/update/getLocal on int/long/unsigned/uint64/float/double, GReduceMax/Min on the "
               "same types incl. all-negative and extreme values, GReduceLogicalAnd/Or, make_reducible with by-value merges, a "
               "std::function merge, a move-only payload and a map payload; reset(), repeated reduce, thread-count changes "
               "between update and reduce) is compared with the sequential fold; InsertBag, PerThreadVector/Deque/Gdeque/List/"
               "Set/Map/MinHeap, ThreadSafeOrderedSet/MinHeap, DynamicBitSet (concurrent set/reset/test with old-value "
               "accounting, reset(begin,end) for every pair of every size <= 200 and random large, concurrent disjoint ranges, "
               "bitwise_or/and/xor, count, getOffsets), atomicMin/Max/Add/Subtract (final value and serial-history check of the "
               "returned old values) and concurrent UnionFind merge/find/findAndCompress/compress are compared with std:: "
               "models / an independent union-find. Held on the executions observed, not all schedules.",
    level_note="Trusts the sequential models in /verif/ref/c15_ref.h and std::; merges used are commutative and associative; "
               "floating-point sums use inputs whose every partial sum is exactly representable; no infinities/NaN.",
    rule="case = one component x one generated update assignment (values, per-thread assignment pattern or loop kind, thread "
         "count 1..max, rounds/reset pattern) on one virtual topology; non-trivial iff >= 2 pool threads each performed >= 1 "
         "operation on the component in one parallel phase, or, for the by-design sequential classes (exhaustive/large "
         "reset(begin,end), bitwise ops whose parallelism is inside the library call, serial helper forms), iff >= 2 oracle "
         "comparisons were made; distinct by (component, variant, value type, value flavour, loop kind/assignment pattern@threads, "
         "rounds, observed worker count, sockets)",
    require={"reduces": 200, "updates": 20000, "resets": 20, "pushes": 20000, "bag_traversals": 20, "global_traversals": 10,
             "range_resets": 1000000, "bit_ops": 10000, "count_getOffsets_checks": 10, "bitwise_ops": 5,
             "atomic_ops": 5000, "uf_merges": 5000, "uf_finds": 1000, "set_pushes": 1000, "set_pops": 100,
             "heap_pushes": 1000, "heap_pops": 500, "parallel_cases": 200, "multi_socket_cases": 50},
    assumptions=[
        "merge functions are commutative and associative; floating-point inputs are finite, without -0.0, and sums are exact",
        "reset() is judged by behaviour: reduce() after reset() must return a value e with merge(x,e)==x for every x of the type "
        "(0 for sums, <= lowest() for max, >= max() for min, true/false for and/or, idFn() for user merges)",
        "DynamicBitSet::test is only called on bits that no thread modifies in the same phase (other bits of the same word are "
        "modified); set and reset of one bit are never mixed in one phase, so every order gives the same answer",
        "remove()/pop() of ThreadSafeOrderedSet/MinHeap are only exercised concurrently on non-empty containers (a sentinel "
        "element stays); InsertBag::pop only directly after a push by the same thread (never two pops in a row)",
        "const iteration of InsertBag and cbegin_all()/begin_all() of PerThreadSet/Map/MinHeap do not compile and are not exercised",
        "virtual topologies come from the GALOIS_VERIF_TOPO hook; threads are not bound; DReducible (libdist) is not covered",
    ],
)
