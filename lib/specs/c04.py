from .common import H, TOPOS_QUICK, TOPOS_THOROUGH


def c04(tier):
    runs = []
    if tier == "quick":
        for t in TOPOS_QUICK:
            runs.append(H("c04_termination", "plain", 500, t, timeout_per_case=20))
        runs.append(H("c04_termination", "plain", 100, "12,12,8", cpus=4, timeout_per_case=60, params=dict(oversub=1)))
        runs.append(H("c04_termination", "asan", 200, "4,4,4,4", timeout_per_case=40))
        runs.append(H("c04_termination", "asan", 100, None, timeout_per_case=40))
        # the executor's own re-arm path (termination announced, worklist not yet empty: initializeThread +
        # barrier inside ForEachExecutor::go) only runs with a worklist that has empty(): OBIM with barrier
        runs.append(H("c01_foreach", "plain", 150, "4,4,4,4", timeout_per_case=20,
                      params=dict(focus="c08", wl="OBIM_barrier", maxitems=600)))
    else:
        for t in TOPOS_THOROUGH:
            runs.append(H("c04_termination", "plain", 1800, t, timeout_per_case=20))
            runs.append(H("c04_termination", "asan", 400, t, timeout_per_case=60))
        for cpus in (2, 4):
            runs.append(H("c04_termination", "plain", 400, "12,12,8", cpus=cpus, timeout_per_case=90, params=dict(oversub=1)))
        runs.append(H("c04_termination", "tsan", 300, "4,4,4,4", timeout_per_case=120, params=dict(det=0)))
        runs.append(H("c04_termination", "tsan", 150, None, timeout_per_case=120, params=dict(det=1)))
        for t in (None, "4,4,4,4", "3,5"):
            runs.append(H("c01_foreach", "plain", 800, t, timeout_per_case=20,
                          params=dict(focus="c08", wl="OBIM_barrier", maxitems=1500)))
    return runs


SPEC = dict(
    runs=c04,
    technique="runtime monitoring: harness-side ledger of outstanding work units checked at every observation of globalTermination(); "
              "lock-step rounds give a logical liveness bound; failpoint delay between the two token stores; hang monitor",
    level_text="A work-passing game is played directly on the ring detector (the system instance and a private one) and on the tree "
               "detector inside on_each, calling initializeThread/localTermination/globalTermination exactly as the for_each executor "
               "does: generated unit forests with late transfers behind the token, one long-busy thread, ping-pong pairs, bursts and "
               "empty games; 1..max threads; 1-3 games per region re-armed with initializeThread + barrier; 1-4 socket topologies; "
               "delays between the two stores of the token hand-over and before idle reports; over-subscription. Soundness: whenever "
               "a thread observes termination the ledger of existing units must be zero and every mailbox empty, and all units must "
               "have been processed. Liveness: in lock-step games (one report per thread per harness-barrier round) termination must "
               "reach every thread within 4n+8+8*ceil(log2(n+1)) rounds after the last unit disappeared; free-running games rely on "
               "the logical hang monitor. The executor's own re-arm path (termination announced while the worklist is not yet "
               "empty) is exercised by real for_each loops on OBIM-with-barrier worklists with several levels, under the C01 "
               "conservation/hang oracles. Held on the executions observed.",
    level_note="Trusts the ledger (seq_cst counter incremented before a unit is visible, decremented after its sends), the harness "
               "barrier of lock-step mode, Galois asserts in the asan build as extra monitors. The number of reports per token hop in "
               "free-running mode depends on cache latency and is deliberately not bounded.",
    rule="case = (detector, threads, 1-3 games, unit-forest shape, delays, lock-step or free-running, noise); non-trivial iff >=2 threads "
         "and >=1 work unit; distinct by (detector, threads, sockets, shape, games, units, noise level, mode)",
    require={"units_processed": 5000, "lockstep_games": 100, "multi_socket_cases": 10},
    assumptions=["the game calls the detector the way ForEachExecutor::go() does (report after draining, observe, re-arm behind a barrier)"],
)
