from .common import H

# Open MPI on this machine: shared memory / loopback only (no network interfaces needed); ranks yield while they
# wait so that np x threads may exceed the free cores. GALOIS_DEBUG_SKIP: Debug (asan) builds do not print gDebug lines.
ENV = dict(GALOIS_DEBUG_SKIP=1, OMPI_MCA_btl="self,vader", OMPI_MCA_mpi_yield_when_idle=1)

# rows of COMBOS[] in harness/c19_main.cpp: the 28 (scheme, direction) combinations of DistBench/Input.h
# (11 schemes x out/in edge iteration + 6 symmetric) + 2 MiningGraph policies; case k uses row (k + 7*seed + 3*salt) % 30
NCOMBOS = 30


def c19(tier):
    runs = []
    if tier == "quick":
        for np, cases in ((1, 30), (2, 60), (3, 60), (4, 60)):
            runs.append(H("c19_partition", "dist", cases, None, env=ENV, mpi=np, params=dict(salt=np),
                          timeout_per_case=60, timeout_base=180))
        # asserts on + ASan/UBSan: one pass over all combinations on 3 hosts (odd host count: 3x1 Cartesian grid)
        runs.append(H("c19_partition", "dist-asan", 30, None, env=ENV, mpi=3, params=dict(salt=13, maxnodes=600),
                      timeout_per_case=120, timeout_base=240))
    else:
        for np, cases in ((1, 60), (2, 300), (3, 300), (4, 300)):
            runs.append(H("c19_partition", "dist", cases, None, env=ENV, mpi=np, params=dict(salt=np),
                          timeout_per_case=90, timeout_base=240))
        for np, cases in ((1, 30), (2, 60), (3, 60), (4, 60)):
            runs.append(H("c19_partition", "dist-asan", cases, None, env=ENV, mpi=np,
                          params=dict(salt=10 + np, maxnodes=1500, nohuge=1), timeout_per_case=180, timeout_base=300))
    return runs


SPEC = dict(
    runs=c19,
    technique="runtime monitoring (differential): the real partitioner (cuspPartitionGraph<Policy, char, void|uint32_t>, and "
              "MiningGraph) runs under mpirun on 1-4 hosts over generated .gr files written by the independent codec of "
              "/verif/ref; what every host exposes through DistGraph's public accessors (getGID/getLID/isLocal/isOwned/"
              "getHostID, numMasters, getNumNodesWithEdges, masterNodesRange, edges/getEdgeDst/getEdgeData, getMirrorNodes, "
              "cartesianGrid) is gathered with plain MPI collectives on a private communicator and compared on rank 0 with "
              "the generated graph; ASan/UBSan build with asserts on; seeded arrival-order noise (one host sleeps, failpoint noise)",
    level_text="Every (scheme, direction) combination that DistBench/Input.h offers (oec, iec, hovc, hivc, cvc, cvc-iec, "
               "ginger-o/i, fennel-o/i, sugar-o; out-edge, in-edge (CSC / in-memory transpose) and symmetric construction -> "
               "policy classes NoCommunication, GenericHVC, GenericCVC, GenericCVCColumnFlip, GingerP, FennelP, SugarP, "
               "SugarColumnFlipP) plus MiningGraph<MiningPolicyDegrees|Naive> is run on 1, 2, 3 and 4 MPI hosts with 1-2 "
               "threads, with the default arguments of Input.h and with generated options (cuspAsync on/off, stateRounds "
               "1/2/3/7/25/100, the three read-balancing policies with node/edge weights, a masters block file for oec/iec), edge "
               "data void / uint32 / void over a file that carries data, on generated graphs (isolated nodes, no edges at all, "
               "stars and hubs with > 1000 edges, fewer nodes than hosts, hosts without nodes or edges, self loops, parallel "
               "edges, paths, grids, power-law, dense, random; thorough tier: a few graphs with ~2M edges so that send buffers "
               "are flushed inside the edge loop). Checked per case: the union of the local edges equals the input multiset "
               "(transposed input for in-memory transposed construction; data equal), every node has exactly one master, both "
               "end points of every local edge are proxies of that host, getLID(getGID(l)) == l and getGID(getLID(g)) == g, the "
               "owned proxies are exactly local ids [0, numMasters()), getHostID/isOwned agree with the master found, every "
               "mirror proxy is in exactly one mirror list and that list's peer is its master, no edges at local ids >= "
               "getNumNodesWithEdges(), and the placement promised by the policy (edge cut: edge at its source's master; hybrid "
               "cut: per source all edges at its master or all at their destinations' masters; Cartesian cut: host in the grid "
               "row of the source's master and the grid column of the destination's master; read-assignment policies: masters "
               "are contiguous blocks in host order) and the structure that Gluon derives from the flags: a host whose graph says "
               "!is_vertex_cut() has no mirror with out-edges (in-edges when isTransposed()), and with a non-zero cartesianGrid() every "
               "mirror end point of a local edge lies in the grid row/column Gluon talks to. Held on the cases observed, not for all graphs/schedules.",
    level_note="Trusts the reference .gr codec and generator (/verif/ref/gr_codec.h), MPI collectives on a duplicated "
               "communicator, and that the public accessors report the state the applications see. The peer's master lists "
               "are built by Gluon from the mirror lists (C18); here the partition-level fact is checked: every entry of A's "
               "mirror list for B is a mirror proxy on A and a master on B. Message arrival orders are whatever MPI and the OS "
               "produce plus one sleeping host and failpoint noise per case. A fatal signal or ASan report inside the library "
               "call on any rank is turned into a violation event with a deterministic key (C19:<policy>[/no-edges|/nodes<hosts|"
               "+mastersFile]:crash-<SIGNAL> or :asan-<kind>) by handlers in the harness, which then leaves with exit code 3 "
               "(driver: violation recorded, restart after this case).",
    rule="case = (Input.h scheme x direction -> policy class, input/output format, symmetric) x options (defaults or cuspAsync, "
         "stateRounds, read policy, weights, masters file) x edge data mode x threads x generated graph, on one host count; "
         "non-trivial iff >= 2 hosts, the graph has an edge and (some mirror proxy exists or at least two hosts hold edges); "
         "distinct by (scheme/direction, hosts, threads, graph kind, edge data mode, the options that can influence the run "
         "[async/bsp and rounds class 1/few/many only for policies with a master assignment phase; read policy unless a "
         "masters file overrides it], masters file, whether a host got no node)",
    require={"edges_checked": 100000, "proxies_checked": 30000, "mirrors": 5000, "mirror_list_entries": 5000,
             "policy_checked_edges": 100000, "hostid_queries": 30000, "hosts_without_nodes": 5, "hosts_without_edges": 20,
             "cases_nodes_lt_hosts": 2, "sources_over_1000_edges": 5, "sources_placed_at_destination_masters": 1,
             "cases_transposed_in_memory": 20, "cases_symmetric": 15, "cases_input_csc": 20, "cases_edge_data": 30,
             "cases_async": 30, "cases_masters_file": 3, "cases_defaults": 15, "cases_multi_host": 150,
             "cases_two_threads": 40, "cases_mining": 6, "edges_under_edge_cut_claim": 20000,
             "hosts_claiming_edge_cut": 100, "hosts_claiming_vertex_cut": 100, "mirror_endpoints_under_grid_claim": 1000},
    assumptions=[
        "Input domain (from BufferedGraph.h/OfflineGraph.h/CuSPPartitioner.h and the dist apps): version-1 .gr files (BufferedGraph "
        "documents version 1 only), at least one node, node ids < 2^32, edge data void or uint32_t with a file whose edge data size "
        "matches (or void over a file that carries data), stateRounds >= 1, the transpose file really is the transpose of the "
        "graph file, symmetric=true only with a symmetric graph. The empty (0-node) graph is not generated "
        "(BALANCED_MASTERS_AND_EDGES divides by the node count).",
        "Policies with a master assignment phase (GingerP, FennelP, SugarP, SugarColumnFlipP) only know the masters of the nodes a "
        "host holds or read (retrieveMaster GALOIS_DIEs otherwise, documented in BasePolicies.h): getHostID/isOwned are only asked "
        "about proxies there, about every global id for the read-assignment policies.",
        "Order of edges inside a node and order of entries inside a mirror list are not judged; 'the peer's list of masters' is "
        "derived from the mirror list by Gluon (same order by construction) and is not exposed by DistGraph.",
        "Hybrid cut: the degree threshold (1000) is not judged, only that a source's edges are placed consistently; which "
        "alternative was taken is counted in the evidence.",
        "MiningGraph (not reachable through cuspPartitionGraph) replicates and filters edges by design: on simple symmetric graphs "
        "the oracle demands the kept edges (policy keepEdge) exactly once under master sources and that every edge under a "
        "mirror source is a kept input edge; node-level checks as for the other policies.",
        "The masters block file format is undocumented (hidden -mastersFile option): lines 'Host h gets masters from nodes L to "
        "node R' (token 6 = first node, token 9 = last node, inclusive), non-empty blocks, as readersFromFile parses them.",
        "The flags is_vertex_cut(), isTransposed() and cartesianGrid() are judged only through what their consumer assumes "
        "(GluonSubstrate, constructed by DistBench/Start.h with exactly these values; GluonSubstrate.h sync_*_to_* and "
        "isNotCommPartnerCVC): !is_vertex_cut() => no mirror is the source (not transposed) / the destination (transposed) of a "
        "local edge; a non-zero grid => rows*cols == hosts and a mirror that is a local source (destination) sits in the grid "
        "row (column) of its master's host, rows and columns swapped when isTransposed(). Nothing is demanded of a partition "
        "that claims to be a vertex cut, and MiningGraph (consumer: GluonEdgeSubstrate) is exempt.",
        "A wall-clock watchdog (hung rank) makes a case inconclusive, never a violation.",
    ],
)
