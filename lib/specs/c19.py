from .common import H

# Open MPI on this machine: shared memory / loopback only, no network interfaces needed
ENV = dict(GALOIS_DEBUG_SKIP=1, OMPI_MCA_btl="self,vader", OMPI_MCA_rmaps_base_oversubscribe=1,
           OMPI_MCA_mpi_yield_when_idle=1)

NCOMBOS = 30  # rows of COMBOS[] in harness/c19_main.cpp: 28 Input.h scheme/direction combinations + 2 MiningGraph policies


def c19(tier):
    runs = []
    if tier == "quick":
        for np, cases in ((1, 30), (2, 60), (3, 60), (4, 60)):
            runs.append(H("c19_partition", "dist", cases, None, env=ENV, mpi=np, params=dict(salt=np),
                          timeout_per_case=60, timeout_base=180))
    else:
        for np, cases in ((1, 60), (2, 300), (3, 300), (4, 300)):
            runs.append(H("c19_partition", "dist", cases, None, env=ENV, mpi=np, params=dict(salt=np),
                          timeout_per_case=90, timeout_base=240))
        for np, cases in ((2, 60), (3, 60), (4, 60)):
            runs.append(H("c19_partition", "dist-asan", cases, None, env=ENV, mpi=np, params=dict(salt=10 + np, maxnodes=1500),
                          timeout_per_case=180, timeout_base=300))
    return runs


SPEC = dict(
    runs=c19,
    technique="runtime monitoring (differential): cuspPartitionGraph / MiningGraph on 1-4 MPI hosts over generated .gr files "
              "written by an independent codec; what every host exposes through DistGraph's public accessors is gathered "
              "with plain MPI and compared on rank 0 with the generated graph",
    level_text="to be filled",
    level_note="to be filled",
    rule="to be filled",
    require={"edges_checked": 1000},
    assumptions=[],
)
