"""C20 -- Lonestar applications compute the correct answer for every input.

Script-driven: the real application binaries (repo targets bfs-cpu, sssp-cpu, connected-components-cpu,
minimum-spanningtree-cpu, triangle-counting-cpu, k-core-cpu, pagerank-pull-cpu, pagerank-push-cpu,
maximal-independentset-cpu, maximum-cardinality-matching-cpu, preflowpush-cpu and, in the thorough tier, the
distributed bfs-push-dist, sssp-push-dist, connected-components-push-dist, pagerank-pull-dist, k-core-push-dist under
mpirun) are run as black boxes on generated .gr inputs; everything they print (and the per-node output files of
the distributed apps) is compared with the independent references in lib/specs/c20ref.py.  The applications' own
verification step is left on as an additional monitor.  The only helper executable is harness/c20_mis_dump.cpp,
which compiles the unmodified IndependentSet.cpp and dumps the per-node result the application does not print.

One case = (application, algorithm variant, one generated graph, a set of thread counts [hosts x policy]).
"""
import concurrent.futures as cf
import math
import os
import re
import shutil
import subprocess
import time

from . import c20ref as R

SCRATCH_ROOT = "/var/tmp/c20"
APP_TIMEOUT = 300          # seconds per application process (generous: a timeout is inconclusive, never a verdict)
MPI_TIMEOUT = 420
PAR = 5                    # cases in flight (each application run uses up to 8/16 threads for a fraction of a second)
PAR_DIST = 3

CPU_TARGETS = {
    "bfs": "bfs-cpu", "sssp": "sssp-cpu", "cc": "connected-components-cpu", "mst": "minimum-spanningtree-cpu",
    "triangles": "triangle-counting-cpu", "kcore": "k-core-cpu", "pr-pull": "pagerank-pull-cpu",
    "pr-push": "pagerank-push-cpu", "mis": "maximal-independentset-cpu", "matching": "maximum-cardinality-matching-cpu",
    "maxflow": "preflowpush-cpu",
}
DIST_TARGETS = {
    "dist-bfs": "bfs-push-dist", "dist-sssp": "sssp-push-dist", "dist-cc": "connected-components-push-dist",
    "dist-pr": "pagerank-pull-dist", "dist-kcore": "k-core-push-dist",
}
QUICK_APPS = ["bfs", "sssp", "cc", "mst", "triangles", "kcore", "mis", "pr-push"]
ALL_CPU_APPS = ["bfs", "sssp", "cc", "mst", "triangles", "kcore", "mis", "pr-push", "pr-pull", "matching", "maxflow"]

SM_INF = 2147483646        # BFS_SSSP::DIST_INFINITY = numeric_limits<uint32_t>::max() / 2 - 1
DIST_INF = 1073741823      # distributed bfs/sssp: numeric_limits<uint32_t>::max() / 4
ALPHA = 0.85


class Inconclusive(Exception):
    pass


def _driver():
    import driver
    return driver


HANG_CPU_S = 60.0          # CPU-seconds (+ (n+m)/50) of a single-threaded run before the livelock rule fires
MEM_LIMIT = 8 << 30        # address-space limit per application process (they normally map ~1.5 GB)


def hang_budget(size):
    return HANG_CPU_S + size / 50.0


def _child_setup():
    os.setsid()
    try:
        import resource
        resource.setrlimit(resource.RLIMIT_AS, (MEM_LIMIT, MEM_LIMIT))
        resource.setrlimit(resource.RLIMIT_CORE, (0, 0))
    except (ValueError, OSError):
        pass


def proc_cpu_seconds(pid):
    """utime + stime of the whole process (all threads), from /proc/<pid>/stat"""
    try:
        with open("/proc/%d/stat" % pid) as f:
            st = f.read()
        t = st[st.rindex(")") + 2:].split()
        return (int(t[11]) + int(t[12])) / float(os.sysconf("SC_CLK_TCK"))
    except (OSError, ValueError, IndexError):
        return 0.0


# ---------------------------------------------------------------------------------------------- case context
class Ctx:
    def __init__(self, idx, seed, tier, exes, root, desc):
        self.idx = idx
        self.tier = tier
        self.exes = exes
        self.desc = desc
        self.r = R.Rng(R.mix(seed, idx * 7919 + 11))
        self.dir = os.path.join(root, "c%d" % idx)
        os.makedirs(self.dir, exist_ok=True)
        self.params = {"component": desc["comp"], "app": desc["app"], "variant": desc["variant"]}
        self.viol = []
        self.fired = set()
        self.obs = {"app_runs": 0, "fingerprints_compared": 0, "own_verify_passed": 0}
        self.inconclusive = None
        self.sig = ""
        self.nontrivial = False
        self.graph = None
        self.files = {}
        self.hung = False
        self.verify_failed = False

    def p(self, name):
        return os.path.join(self.dir, name)

    def count(self, k, n=1):
        self.obs[k] = self.obs.get(k, 0) + n

    def key(self, kind):
        return "C20:%s:%s" % (self.desc["comp"], kind)

    def witness(self, extra):
        g = self.graph
        d = {}
        if g is not None:
            d["graph"] = {"kind": g.kind, "nodes": g.n, "edges": g.m()}
            if g.m() <= 40:
                d["graph"]["edge_list(src dst [w])"] = g.edge_list_text()
        d.update(extra)
        return d

    def violation(self, kind, detail):
        k = self.key(kind)
        if k not in self.fired:
            self.fired.add(k)
            self.viol.append((k, self.witness(detail)))

    # ------------------------------------------------------------------ running an application
    def _once(self, cmd, env, wall_limit, cpu_cap):
        """one process; returns (kind, rc, text, cpu) with kind in done | cpu | timeout"""
        self.count("app_runs")
        outp = self.p("stdout-%d.txt" % self.obs["app_runs"])
        kind, cpu = "done", 0.0
        with open(outp, "wb") as of:
            p = subprocess.Popen(cmd, stdout=of, stderr=subprocess.STDOUT, env=env, cwd=self.dir, preexec_fn=_child_setup)
            t0 = time.time()
            step = 0.05
            while True:
                try:
                    p.wait(timeout=step)
                    break
                except subprocess.TimeoutExpired:
                    step = min(1.0, step * 2)
                    if cpu_cap is not None:
                        cpu = proc_cpu_seconds(p.pid)
                        if cpu >= cpu_cap:
                            kind = "cpu"
                    if kind == "done" and time.time() - t0 > wall_limit:
                        kind = "timeout"
                    if kind != "done":
                        try:
                            os.killpg(p.pid, 9)
                        except ProcessLookupError:
                            pass
                        p.wait()
                        break
        with open(outp, "rb") as f:
            f.seek(max(0, os.path.getsize(outp) - 200000))
            text = f.read().decode(errors="replace")
        try:
            os.unlink(outp)
        except OSError:
            pass
        return kind, p.returncode, text, cpu

    def run(self, exe, args, mpi=0, timeout=None, threads=1):
        """returns (rc, text); rc == "hang" when the livelock rule below fired (violation already recorded).
        Wall-clock timeout: one re-run with twice the limit, then Inconclusive (never a verdict).
        Livelock rule (shared-memory applications): a *single-threaded* run (-t 1) has consumed
        60 + (nodes+edges)/50 seconds of CPU time (utime+stime from /proc/<pid>/stat, so time spent descheduled on the
        loaded machine does not count) without terminating: > 10^11 instructions on inputs every algorithm here
        handles in well under 10^9. A multi-threaded run that exceeds threads x that budget proves nothing (its threads
        may be spinning while one of them is descheduled): it is stopped, the same command is probed with -t 1 under
        the rule, and if the probe terminates the multi-threaded run is repeated with the wall-clock limit only."""
        env = _driver().san_env()
        pre = []
        if mpi:
            pre = ["mpirun", "--allow-run-as-root", "--oversubscribe", "-np", str(mpi)]
            env["OMPI_MCA_rmaps_base_oversubscribe"] = "1"
            env["OMPI_MCA_mpi_yield_when_idle"] = "1"
        args = [str(a) for a in args]
        cmd = pre + [exe] + args
        limit = timeout or (MPI_TIMEOUT if mpi else APP_TIMEOUT)
        budget = None
        if not mpi and self.graph is not None and "-t" in args:
            budget = hang_budget(self.graph.n + self.graph.m())
        text = ""
        for attempt in (0, 1):
            kind, rc, text, cpu = self._once(cmd, env, limit * (attempt + 1), budget * max(1, threads) if budget else None)
            if kind == "done":
                return rc, text
            if kind == "cpu":
                pcmd, pcpu = cmd, cpu
                if threads > 1:
                    pargs = list(args)
                    pargs[pargs.index("-t") + 1] = "1"
                    pcmd = [exe] + pargs
                    self.count("single_thread_probes")
                    kind2, rc2, text2, pcpu = self._once(pcmd, env, limit, budget)
                    if kind2 != "cpu":
                        budget = None       # unexplained slowness of the multi-threaded run: wall-clock limit only
                        continue
                    text = text2
                lines = [l for l in text.splitlines() if not l.startswith(("STAT", "PARAM"))]
                self.violation("hang", {"cmd": self.show_cmd(pcmd), "cpu_seconds_consumed_single_threaded": round(pcpu, 1),
                                        "evidence": "a -t 1 run consumed this much CPU time (not wall-clock) on a graph of %d "
                                                    "nodes / %d edges without terminating" % (self.graph.n, self.graph.m()),
                                        "first_seen_with_threads": threads,
                                        "output_tail": "\n".join(lines)[-700:]})
                self.count("hangs")
                return "hang", text
            self.count("timeouts")
        raise Inconclusive("%s: no result within %ds (twice): %s ... output tail: %s" %
                           (self.desc["comp"], limit * 2, " ".join(self.show_cmd(cmd)), text[-600:]))

    def show_cmd(self, cmd):
        return [os.path.basename(a) if (a.startswith("/") and not a.startswith(self.dir)) else
                a.replace(self.dir + "/", "") for a in [str(x) for x in cmd]]

    def app_failed(self, rc, text, cmd):
        """non-zero exit of an application on an in-domain input: its own verification step or a crash"""
        lines = [l for l in text.splitlines() if not l.startswith(("STAT", "PARAM")) and "Huge page alloc failed" not in l]
        tail = "\n".join(lines)[-1500:]
        low = text.lower()
        own_verify = ("verification failed" in low or "height violated" in low or "non-zero excess" in low or
                      "not pseudoflow" in low or "not maximal" in low or "double match" in low or
                      "node found with incorrect distance" in low or "not in same component" in low or
                      "not a matching" in low or "not a node cover" in low or "not a forest" in low)
        if own_verify:
            self.verify_failed = True
            self.violation("verify-failed", {"cmd": self.show_cmd(cmd), "rc": rc, "output_tail": tail})
            return
        m = re.search(r"Assertion `(.*)' failed", text)
        if m:
            what = "assert:" + re.sub(r"\d+", "N", m.group(1))[:60]
        else:
            m = re.search(r"^ERROR: (\S+?):\d+: (.*)$", text, re.M)
            if m:
                what = "die:" + re.sub(r"\d+", "N", m.group(2))[:60]
            else:
                kind, w, _ = _driver().classify_crash(rc, text)
                what = "%s:%s" % (kind, w)
        self.violation("crash:" + what, {"cmd": self.show_cmd(cmd), "rc": rc, "output_tail": tail})

    def app(self, name, args, mpi=0, threads=1):
        """run application `name`; returns the output text, or None after recording a violation for a crashed/hung
        run. A run that only failed the application's own verification step still returns its text (the
        fingerprints are printed before the verifier runs) with self.verify_failed set."""
        exe = self.exes[name]
        self.verify_failed = False
        rc, text = self.run(exe, args, mpi=mpi, threads=threads)
        if rc == "hang":
            self.hung = True
            return None
        if rc != 0:
            self.app_failed(rc, text, [exe] + list(args))
            if self.verify_failed:
                return text
            return None
        return text

    def expect(self, kind, name, expected, observed, cmd, extra=None):
        """one printed fingerprint against the reference"""
        self.count("fingerprints_compared")
        if observed is None:
            d = {"fingerprint": name, "expected": expected, "observed": "line not printed", "cmd": cmd}
            d.update(extra or {})
            self.violation("missing-output", d)
            return False
        if expected != observed:
            d = {"fingerprint": name, "expected": expected, "observed": observed, "cmd": cmd}
            d.update(extra or {})
            self.violation(kind, d)
            return False
        return True


def grab_int(text, rx):
    m = re.search(rx, text)
    return int(m.group(1)) if m else None


def grab_float(text, rx):
    m = re.search(rx, text)
    return float(m.group(1)) if m else None


# ---------------------------------------------------------------------------------------------- input sampling
LONG_DIAMETER = ("path", "cycle", "grid", "tree", "lollipop")


def pick_n(ctx, big_ok=True, cap=None):
    r = ctx.r
    c = r.below(100)
    if c < 22:
        n = r.range(1, 10)
    elif c < 55:
        n = r.range(11, 100)
    elif c < 85:
        n = r.range(101, 600)
    else:
        n = r.range(601, 2000)
    if ctx.tier == "thorough" and big_ok and r.below(6) == 0:
        # long-diameter shapes stay below 2000 nodes: round-synchronous variants need one barrier per level, and a
        # barrier among 16 threads costs a scheduling quantum on an oversubscribed machine
        n = r.range(2000, 10000) if ctx.desc["kind"] not in LONG_DIAMETER else r.range(1000, 2000)
    if cap:
        n = min(n, cap)
    return n


def pick_threads(ctx, serial=False):
    r = ctx.r
    pool = [1, 2, 4, 8] if ctx.tier == "quick" else [1, 2, 3, 4, 5, 6, 8, 12, 16]
    if serial:
        return [1, r.pick(pool[1:])]
    k = 3 if ctx.tier == "quick" else 4
    t = sorted(set([pool[i] for i in r.sample(len(pool), k)]))
    if ctx.tier == "thorough" and r.below(3) == 0 and 16 not in t:
        t[-1] = 16
    return t


def size_class(n):
    return "n<=10" if n <= 10 else ("n<=100" if n <= 100 else ("n<=600" if n <= 600 else ("n<=2000" if n <= 2000 else "n>2000")))


def finish_sig(ctx, g, threads, extra=""):
    ctx.graph = g
    ctx.params.update({"graph": g.kind, "nodes": g.n, "edges": g.m(), "threads": threads})
    ctx.sig = "%s|%s|%s|%s|t%s%s" % (ctx.desc["comp"], g.kind, size_class(g.n), "m0" if g.m() == 0 else "m+",
                                     "-".join(str(t) for t in threads), extra)
    ctx.nontrivial = g.n >= 2 and g.m() >= 1


def tile_graph(ctx, directed, weighted=False, wmode="small", cap_total=(1 << 31) - 3):
    """a graph with nodes whose degree exceeds the edge-tile sizes of the tiled variants (256/512/64)"""
    r = ctx.r
    kind = r.pick(["star", "powerlaw", "star"])
    n = r.range(1100, 2000)
    g = R.gen_graph(r, kind, n, directed=directed, weighted=weighted, wmode=wmode, cap_total=cap_total)
    if kind == "star" and directed:
        # out-star from the hub (so that the hub's out-edges are tiled) plus a few back edges
        hub = max(range(g.n), key=lambda v: len(g.adj[v]))
        g2 = R.Graph(g.n, weighted, "star")
        W = R.gen_weights(r, g.n, wmode, cap_total // 2) if weighted else [None] * g.n
        for v in range(g.n):
            if v != hub:
                g2.adj[hub].append((v, W[v]))
                if r.below(10) == 0:
                    g2.adj[v].append((r.below(g.n), W[v]))
        g = g2
    g.kind = kind + "-hub"
    return g


def sources_for(ctx, g, dist_fn):
    """start node: one with out-edges when possible (node 0, the last node, a hub, or random)"""
    r = ctx.r
    cands = [0, g.n - 1, r.below(g.n), max(range(g.n), key=lambda v: len(g.adj[v]))]
    withedges = [v for v in cands if g.adj[v]]
    return r.pick(withedges if withedges and r.below(8) else cands)


def report_nodes(ctx, ref, src, k):
    """sampled -reportNode values: the source, a farthest node, an unreachable node, the last node, random ones"""
    r = ctx.r
    n = len(ref)
    out = [src]
    reach = [v for v in range(n) if ref[v] is not None]
    unreach = [v for v in range(n) if ref[v] is None]
    far = max(reach, key=lambda v: ref[v])
    out.append(far)
    if unreach:
        out.append(r.pick(unreach))
    out.append(n - 1)
    while len(out) < k + 4:
        out.append(r.pick(reach) if r.below(3) else r.below(n))
    seen, res = set(), []
    for v in out:
        if v not in seen:
            seen.add(v)
            res.append(v)
    # the first k distinct ones, but always keep far/unreachable in front
    return res[:max(k, 1)] if len(res) >= k else (res + [res[-1]] * (k - len(res)))


# ---------------------------------------------------------------------------------------------- bfs / sssp
BFS_VARIANTS = [(a, e) for e in ("PARALLEL", "SERIAL") for a in ("AsyncTile", "Async", "SyncTile", "Sync")]
SSSP_ALGOS = ["deltaTile", "deltaStep", "deltaStepBarrier", "serDeltaTile", "serDelta", "dijkstraTile", "dijkstra",
              "topo", "topoTile", "AutoAlgo"]
SSSP_SERIAL = ("serDeltaTile", "serDelta", "dijkstraTile", "dijkstra")


def check_distance_run(ctx, text, ref, rep, cmd, inf):
    """fingerprints printed by bfs-cpu / sssp-cpu against the reference distances"""
    reach = [d for d in ref if d is not None]
    exp_rep = ref[rep] if ref[rep] is not None else inf
    ok = ctx.expect("wrong-distance", "Node %d has distance" % rep, exp_rep,
                    grab_int(text, r"Node %d has distance (\d+)" % rep), cmd, {"reportNode": rep})
    ctx.count("report_nodes_checked")
    ok &= ctx.expect("wrong-visited-count", "# visited nodes", len(reach), grab_int(text, r"# visited nodes is (\d+)"), cmd)
    ok &= ctx.expect("wrong-max-distance", "Max distance", max(reach), grab_int(text, r"Max distance is (\d+)"), cmd)
    ok &= ctx.expect("wrong-distance-sum", "Sum of visited distances", sum(reach),
                     grab_int(text, r"Sum of visited distances is (\d+)"), cmd)
    if "Verification successful." in text:
        ctx.count("own_verify_passed")
    elif not ctx.verify_failed:
        ctx.violation("missing-output", {"fingerprint": "Verification successful.", "cmd": cmd})
    return ok


def case_bfs(ctx):
    r = ctx.r
    algo, ex = ctx.desc["args"]
    tiled = "Tile" in algo
    if tiled and ctx.desc["k"] % 3 == 1:
        g = tile_graph(ctx, directed=True)
    else:
        g = R.gen_graph(r, ctx.desc["kind"], pick_n(ctx), directed=r.below(4) > 0)
    src = sources_for(ctx, g, None)
    ref = R.bfs_levels(g, src)
    threads = pick_threads(ctx, serial=(ex == "SERIAL"))
    finish_sig(ctx, g, threads, "|" + ("src0" if src == 0 else "srcN"))
    ctx.params.update({"startNode": src})
    path = ctx.p("g.gr")
    R.write_gr(path, g)
    runs = list(threads) + [r.pick(threads) for _ in range(1 if ctx.tier == "quick" else 3)]
    reps = report_nodes(ctx, ref, src, len(runs))
    for t, rep in zip(runs, reps):
        args = [path, "-t", t, "-algo", algo, "-exec", ex, "-startNode", src, "-reportNode", rep]
        text = ctx.app("bfs", args, threads=t)
        if text is None:
            if ctx.hung:
                break
            continue
        check_distance_run(ctx, text, ref, rep, ctx.show_cmd(["bfs-cpu"] + args), SM_INF)
    ctx.count("thread_counts_compared", len(set(runs)))


def case_sssp(ctx):
    r = ctx.r
    algo = ctx.desc["args"]
    tiled = "Tile" in algo
    wmode = r.pick(R.WEIGHT_MODES)
    if tiled and ctx.desc["k"] % 3 == 1:
        g = tile_graph(ctx, directed=True, weighted=True, wmode=wmode)
    else:
        g = R.gen_graph(r, ctx.desc["kind"], pick_n(ctx), directed=r.below(4) > 0, weighted=True, wmode=wmode)
    src = sources_for(ctx, g, None)
    ref = R.dijkstra(g, src)
    threads = pick_threads(ctx, serial=(algo in SSSP_SERIAL))
    delta = r.pick([None, None, 0, 2, 6, 10, 20])
    if g.n > 2000 and delta is not None and delta < 6:
        delta = 10      # one priority level (and, with deltaStepBarrier, one barrier) per 2^delta distance units
    finish_sig(ctx, g, threads, "|w=%s|delta=%s" % (wmode, delta))
    ctx.params.update({"startNode": src, "weights": wmode, "delta": delta})
    path = ctx.p("g.gr")
    R.write_gr(path, g)
    runs = list(threads) + [r.pick(threads) for _ in range(1 if ctx.tier == "quick" else 3)]
    reps = report_nodes(ctx, ref, src, len(runs))
    for t, rep in zip(runs, reps):
        args = [path, "-t", t, "-startNode", src, "-reportNode", rep]
        if algo != "AutoAlgo":
            args += ["-algo", algo]
        if delta is not None:
            args += ["-delta", delta]
        text = ctx.app("sssp", args, threads=t)
        if text is None:
            if ctx.hung:
                break
            continue
        check_distance_run(ctx, text, ref, rep, ctx.show_cmd(["sssp-cpu"] + args), SM_INF)
    ctx.count("thread_counts_compared", len(set(runs)))


# ---------------------------------------------------------------------------------------------- connected components
CC_ALGOS = ["Async", "EdgeAsync", "EdgetiledAsync", "BlockedAsync", "LabelProp", "Serial", "Sync", "Afforest",
            "EdgeAfforest", "EdgetiledAfforest"]


def case_cc(ctx):
    r = ctx.r
    algo = ctx.desc["args"]
    if "tiled" in algo and ctx.desc["k"] % 3 == 1:
        g = tile_graph(ctx, directed=False)
    else:
        g = R.gen_graph(r, ctx.desc["kind"], pick_n(ctx), directed=False)
    st = R.component_stats(R.components(g))
    threads = pick_threads(ctx, serial=(algo == "Serial"))
    finish_sig(ctx, g, threads)
    path = ctx.p("g.gr")
    R.write_gr(path, g)
    for t in threads:
        args = [path, "-symmetricGraph", "-t", t, "-algo", algo]
        text = ctx.app("cc", args, threads=t)
        if text is None:
            if ctx.hung:
                break
            continue
        cmd = ctx.show_cmd(["connected-components-cpu"] + args)
        ctx.expect("wrong-component-count", "Total components", st["components"], grab_int(text, r"Total components: (\d+)"), cmd)
        ctx.expect("wrong-nontrivial-count", "Number of non-trivial components", st["nontrivial"],
                   grab_int(text, r"Number of non-trivial components: (\d+)"), cmd)
        ctx.expect("wrong-largest-component", "largest size", st["largest"], grab_int(text, r"largest size: (\d+)"), cmd)
        if not ctx.verify_failed:
            ctx.count("own_verify_passed")   # a zero exit means verify() found every edge inside one component
    ctx.count("thread_counts_compared", len(threads))


# ---------------------------------------------------------------------------------------------- spanning forest
def case_mst(ctx):
    r = ctx.r
    sym_input = ctx.desc["args"] == "symmetric-input"
    wmode = r.pick(R.WEIGHT_MODES)
    g = R.gen_graph(r, ctx.desc["kind"], pick_n(ctx), directed=not sym_input, weighted=True, wmode=wmode, cap_total=1 << 45)
    w, trees, edges = R.kruskal(g)
    threads = pick_threads(ctx)
    finish_sig(ctx, g, threads, "|w=%s|%s" % (wmode, ctx.desc["args"]))
    ctx.params.update({"weights": wmode})
    path = ctx.p("g.gr")
    R.write_gr(path, g, "<i")
    for t in threads:
        args = [path, "-t", t] + (["-symmetricGraph"] if sym_input else [])
        text = ctx.app("mst", args, threads=t)
        if text is None:
            if ctx.hung:
                break
            continue
        cmd = ctx.show_cmd(["minimum-spanningtree-cpu"] + args)
        ctx.expect("wrong-weight", "MST weight", w, grab_int(text, r"MST weight: (\d+)"), cmd)
        if ctx.verify_failed:
            continue       # "Num trees"/"Tree edges" are printed by the verifier only when it succeeds
        ctx.expect("wrong-tree-count", "Num trees", trees, grab_int(text, r"Num trees: (\d+)"), cmd)
        ctx.expect("wrong-edge-count", "Tree edges", edges, grab_int(text, r"Tree edges: (\d+)"), cmd)
        ctx.count("own_verify_passed")
    ctx.count("thread_counts_compared", len(threads))


# ---------------------------------------------------------------------------------------------- triangles
TRI_VARIANTS = [(a, rl) for a in ("nodeiterator", "edgeiterator", "orderedCount") for rl in (False, True)]


def case_triangles(ctx):
    r = ctx.r
    algo, relabel = ctx.desc["args"]
    g = R.gen_graph(r, ctx.desc["kind"], pick_n(ctx, cap=4000), directed=False)
    # an undirected simple graph (parallel edges have no agreed meaning for a triangle count); self loops stay
    g = R.simplify(g, drop_loops=False, drop_multi=True)
    # every other graph gets self loops on a few nodes, whatever its shape (a node listed among its own neighbours splits
    # its sorted neighbour list exactly where the counting variants cut it into smaller/larger neighbours)
    if g.n >= 2 and r.below(2):
        for _ in range(1 + r.below(max(1, min(40, g.n // 6)))):
            u = r.below(g.n)
            if all(v != u for v, _ in g.adj[u]):
                g.adj[u].append((u, None))
    if r.below(2):
        R.sort_adj(g)
    exp = R.triangles(g)
    threads = pick_threads(ctx)
    finish_sig(ctx, g, threads, "|loops" if R.has_self_loops(g) else "")
    path = ctx.p("g.gr")
    R.write_gr(path, g)
    for t in threads:
        args = [path, "-symmetricGraph", "-t", t, "-algo", algo] + (["-relabel"] if relabel else [])
        text = ctx.app("triangles", args, threads=t)
        if text is None:
            if ctx.hung:
                break
            continue
        ctx.expect("wrong-count", "Num Triangles", exp, grab_int(text, r"Num ?Triangles: (\d+)"),
                   ctx.show_cmd(["triangle-counting-cpu"] + args))
    ctx.count("thread_counts_compared", len(threads))


# ---------------------------------------------------------------------------------------------- k-core
def case_kcore(ctx):
    r = ctx.r
    algo = ctx.desc["args"]
    g = R.gen_graph(r, ctx.desc["kind"], pick_n(ctx), directed=False)
    if r.below(3):
        g = R.simplify(g)
    degs = sorted(len(a) for a in g.adj)
    ks = sorted(set([0, 1, 2, 3, degs[len(degs) // 2], degs[-1], degs[-1] + 1, r.range(0, max(1, degs[-1]))]))
    r.shuffle(ks)
    ks = ks[:3 if ctx.tier == "quick" else 4]
    threads = pick_threads(ctx)
    finish_sig(ctx, g, threads, "|multi" if (R.has_self_loops(g) or R.has_multi_edges(g)) else "")
    ctx.params.update({"k": ks})
    path = ctx.p("g.gr")
    R.write_gr(path, g)
    for k in ks:
        exp = sum(R.kcore(g, k))
        for t in ([r.pick(threads)] if k != ks[0] else threads):
            args = [path, "-symmetricGraph", "-t", t, "-algo", algo, "-kcore=%d" % k]
            text = ctx.app("kcore", args, threads=t)
            if text is None:
                if ctx.hung:
                    break
                continue
            ctx.expect("wrong-core-size", "Number of nodes in the %d-core" % k, exp,
                       grab_int(text, r"Number of nodes in the %d-core is (\d+)" % k),
                       ctx.show_cmd(["k-core-cpu"] + args), {"k": k})
    ctx.count("thread_counts_compared", len(threads))


# ---------------------------------------------------------------------------------------------- PageRank
def pr_tolerances(variant, tol, ref, rounds=None):
    """(relative, absolute) deviation from the exact fixed point that the variant's stopping rule allows.
    push: every node is left with a residual <= tolerance, so the result is below the fixed point x by at most
      (I - a P^T)^-1 (tol * 1) = tol/(1-a) * x elementwise.
    residual (pull, distributed pull): a residual <= tolerance is not propagated in *each* round, so the same bound
      holds per round; T is a generous estimate of the number of rounds.
    topological: ranks normalised by 1/n, iteration stops when the L1 change of one round is <= tolerance, a
      contraction with factor a: L1 distance to the fixed point <= a/(1-a) * tol (x3 for the in-place updates)."""
    mx = max(ref) if ref else 1.0
    if variant == "topo":
        return 3e-4, 3.0 * ALPHA / (1 - ALPHA) * tol + 2e-7
    if variant == "push":
        return 1.5 * tol / (1 - ALPHA) + 3e-4, 2e-6
    T = max(0, int(math.ceil(math.log(min(1.0, tol / (mx + 1.0))) / math.log(ALPHA)))) + 10
    if rounds is not None:
        T = max(T, rounds)
    return 1.5 * (T + 2) * tol / (1 - ALPHA) + 3e-4, 2e-6


def parse_top(text):
    """rows of printTop: 'rank: value id'"""
    out = []
    for m in re.finditer(r"^(\d+): (\S+) (\d+)$", text, re.M):
        out.append((int(m.group(1)), float(m.group(2)), int(m.group(3))))
    return out


def check_pagerank_top(ctx, top, ref, rel, abs_, cmd, kind=None):
    n = len(ref)
    want = min(20, n)
    if len(top) != want or [t[0] for t in top] != list(range(1, want + 1)):
        ctx.violation(kind or "wrong-top-list", {"what": "expected %d rows numbered 1..%d" % (want, want), "rows": top[:25], "cmd": cmd})
        return

    def bound(x):
        return rel * abs(x) + abs_ + 1e-5 * abs(x)   # last term: 6 significant digits in the printout
    ids = [t[2] for t in top]
    if len(set(ids)) != len(ids) or any(i >= n for i in ids):
        ctx.violation(kind or "wrong-top-list", {"what": "duplicate or unknown node ids", "rows": top, "cmd": cmd})
        return
    worst = 0.0
    for rank, val, vid in top:
        ctx.count("fingerprints_compared")
        ctx.count("ranks_compared")
        err = abs(val - ref[vid])
        worst = max(worst, err / bound(ref[vid]))
        if err > bound(ref[vid]):
            ctx.violation(kind or "rank-outside-tolerance", {"node": vid, "printed_rank_value": val, "power_iteration": ref[vid],
                                                     "allowed_deviation": bound(ref[vid]), "cmd": cmd})
            return
    if worst > 0.5:
        ctx.count("pr_runs_using_more_than_half_of_the_allowed_deviation")
    # rank order: only between nodes whose reference ranks are clearly separated
    for (r1, v1, i1), (r2, v2, i2) in zip(top, top[1:]):
        ctx.count("order_pairs_checked")
        if ref[i2] - ref[i1] > bound(ref[i1]) + bound(ref[i2]):
            ctx.violation(kind or "wrong-rank-order", {"listed_before": i1, "listed_after": i2, "power_iteration": [ref[i1], ref[i2]],
                                               "printed": [v1, v2], "cmd": cmd})
            return
    inset = set(ids)
    last = top[-1][2]
    for v in range(n):
        if v not in inset and ref[v] - ref[last] > bound(ref[v]) + bound(ref[last]):
            ctx.violation(kind or "wrong-top-list", {"what": "node missing from the top list", "missing_node": v,
                                             "its_power_iteration_rank": ref[v], "last_listed": last,
                                             "last_listed_power_iteration_rank": ref[last], "cmd": cmd})
            return


def pr_graph(ctx):
    r = ctx.r
    cap = 1500 if ctx.tier == "quick" else 4000
    c = r.below(10)
    n = r.range(1, 20) if c < 4 else pick_n(ctx, big_ok=False, cap=cap)   # <= 20 nodes: the top list is the full vector
    g = R.gen_graph(r, ctx.desc["kind"], n, directed=r.below(4) > 0)
    return g


def case_pr_push(ctx):
    r = ctx.r
    algo = ctx.desc["args"]
    g = pr_graph(ctx)
    tol = r.pick([1e-3, 1e-3, 1e-4, 1e-5, 1e-6])
    ref = R.pagerank_unnormalized(g, ALPHA)
    rel, abs_ = pr_tolerances("push", tol, ref)
    threads = pick_threads(ctx)
    finish_sig(ctx, g, threads, "|tol=%g" % tol)
    ctx.params.update({"tolerance": tol})
    path = ctx.p("g.gr")
    R.write_gr(path, g)
    for t in threads:
        args = [path, "-t", t, "-algo", algo] + (["-tolerance=%g" % tol] if tol != 1e-3 or r.below(2) else [])
        text = ctx.app("pr-push", args, threads=t)
        if text is None:
            if ctx.hung:
                break
            continue
        cmd = ctx.show_cmd(["pagerank-push-cpu"] + args)
        if "failed to converge" in text:
            ctx.count("pr_not_converged")
            continue
        check_pagerank_top(ctx, parse_top(text), ref, rel, abs_, cmd)
    ctx.count("thread_counts_compared", len(threads))


def case_pr_pull(ctx):
    r = ctx.r
    algo = ctx.desc["args"]
    g = pr_graph(ctx)
    tol = r.pick([1e-3, 1e-4, 1e-5, 1e-6, 1e-6])
    ref = R.pagerank_unnormalized(g, ALPHA)
    if algo == "Topo":
        ref = [x / g.n for x in ref]
        rel, abs_ = pr_tolerances("topo", tol, ref)
    else:
        rel, abs_ = pr_tolerances("residual", tol, ref)
    threads = pick_threads(ctx)
    finish_sig(ctx, g, threads, "|tol=%g" % tol)
    ctx.params.update({"tolerance": tol})
    path = ctx.p("gT.gr")
    R.write_gr(path, R.transpose(g))
    for t in threads:
        args = [path, "-transposedGraph", "-t", t, "-algo", algo, "-tolerance=%g" % tol]
        text = ctx.app("pr-pull", args, threads=t)
        if text is None:
            if ctx.hung:
                break
            continue
        cmd = ctx.show_cmd(["pagerank-pull-cpu"] + args)
        if "failed to converge" in text:
            ctx.count("pr_not_converged")
            continue
        check_pagerank_top(ctx, parse_top(text), ref, rel, abs_, cmd)
        # summary lines
        mx, mn, sm = (grab_float(text, r"Max rank is (\S+)"), grab_float(text, r"Min rank is (\S+)"),
                      grab_float(text, r"Sum is (\S+)"))
        if mx is None or mn is None or sm is None:
            ctx.violation("missing-output", {"fingerprint": "Max rank / Min rank / Sum", "cmd": cmd})
            continue
        for name, val, exp, slack in (("Max rank", mx, max(ref), 0.0), ("Min rank", mn, min(ref), 0.0),
                                      ("Sum", sm, sum(ref), 1e-3 * sum(ref))):
            ctx.count("fingerprints_compared")
            allowed = rel * abs(exp) + (abs_ if name != "Sum" or algo == "Topo" else abs_ * g.n) + 1e-5 * abs(exp) + slack
            if abs(val - exp) > allowed:
                ctx.violation("summary-outside-tolerance", {"line": name, "printed": val, "power_iteration": exp,
                                                            "allowed_deviation": allowed, "cmd": cmd})
    ctx.count("thread_counts_compared", len(threads))


# ---------------------------------------------------------------------------------------------- independent set
MIS_ALGOS = ["serial", "pull", "nondet", "detBase", "prio", "edgetiledprio"]


def mis_size_bounds(g):
    """(lo, hi, exact set of feasible sizes or None) for the cardinality of a maximal independent set"""
    n = g.n
    nb = [set(v for v, _ in a if v != u) for u, a in enumerate(g.adj)]
    if n <= 12:
        feas = set()
        for mask in range(1 << n):
            ok = True
            for u in range(n):
                if mask >> u & 1:
                    if any(mask >> v & 1 for v in nb[u]):
                        ok = False
                        break
                elif not any(mask >> v & 1 for v in nb[u]):
                    ok = False
                    break
            if ok:
                feas.add(bin(mask).count("1"))
        return min(feas), max(feas), feas
    dmax = max(len(x) for x in nb)
    lo = -(-n // (dmax + 1))
    matched = [False] * n
    mm = 0
    for u in range(n):
        if not matched[u]:
            for v in nb[u]:
                if not matched[v]:
                    matched[u] = matched[v] = True
                    mm += 1
                    break
    return lo, n - mm, None


def case_mis(ctx):
    r = ctx.r
    algo = ctx.desc["args"]
    if algo == "edgetiledprio" and ctx.desc["k"] % 3 == 1:
        g = tile_graph(ctx, directed=False)
    else:
        g = R.gen_graph(r, ctx.desc["kind"], pick_n(ctx), directed=False)
    # an undirected graph without self loops (a node adjacent to itself has no agreed status); parallel edges stay
    g = R.simplify(g, drop_loops=True, drop_multi=r.below(2) == 0)
    lo, hi, feas = mis_size_bounds(g)
    threads = pick_threads(ctx, serial=(algo == "serial"))
    finish_sig(ctx, g, threads)
    path = ctx.p("g.gr")
    R.write_gr(path, g)
    for t in threads:
        # (1) the application itself: own verification on, cardinality must be feasible
        args = [path, "-symmetricGraph", "-t", t, "-algo", algo]
        text = ctx.app("mis", args, threads=t)
        if text is not None and not ctx.verify_failed:
            cmd = ctx.show_cmd(["maximal-independentset-cpu"] + args)
            card = grab_int(text, r"Cardinality of maximal independent set: (\d+)")
            ctx.count("fingerprints_compared")
            ctx.count("own_verify_passed")
            if card is None:
                ctx.violation("missing-output", {"fingerprint": "Cardinality of maximal independent set", "cmd": cmd})
            elif not (lo <= card <= hi) or (feas is not None and card not in feas):
                ctx.violation("infeasible-cardinality", {"printed": card, "smallest_possible": lo, "largest_possible": hi,
                                                         "feasible_sizes": sorted(feas) if feas else None, "cmd": cmd})
        if ctx.hung:
            break
        # (2) the same algorithm through the dump helper: the set itself must be independent and maximal
        dump = ctx.p("mis-%d.txt" % t)
        args2 = [path, "-symmetricGraph", "-t", t, "-algo", algo, "-noverify", "-c20dump", dump]
        rc, text2 = ctx.run(ctx.exes["mis-dump"], args2, threads=t)
        cmd2 = ctx.show_cmd(["c20_mis_dump"] + args2)
        if rc == "hang":
            break
        if rc != 0:
            ctx.app_failed(rc, text2, ["c20_mis_dump"] + args2)
            continue
        try:
            flags = open(dump).read().strip()
        except OSError:
            flags = ""
        if len(flags) != g.n:
            ctx.violation("missing-output", {"fingerprint": "per-node dump", "chars": len(flags), "nodes": g.n, "cmd": cmd2})
            continue
        ctx.count("sets_checked")
        inset = [c == "1" for c in flags]
        bad = R.is_independent(g, inset)
        if bad:
            ctx.violation("not-independent", {"adjacent_nodes_both_in_set": list(bad), "cmd": cmd2})
        u = R.is_maximal(g, inset)
        if u is not None:
            ctx.violation("not-maximal", {"node_outside_set_without_neighbour_in_set": u, "its_flag": flags[u],
                                          "neighbours": sorted(set(v for v, _ in g.adj[u]))[:20], "cmd": cmd2})
    ctx.count("thread_counts_compared", len(threads))


# ---------------------------------------------------------------------------------------------- bipartite matching
MATCH_VARIANTS = [(a, e) for a in ("abmpAlgo", "ffAlgo", "pfpAlgo") for e in ("parallel", "serial")]


def case_matching(ctx):
    r = ctx.r
    algo, ex = ctx.desc["args"]
    shape = ctx.desc["kind"]
    c = r.below(100)
    nA = r.range(1, 6) if c < 25 else (r.range(6, 60) if c < 60 else (r.range(60, 400) if c < 90 else r.range(400, 1500)))
    nB = max(1, int(nA * r.pick([0.5, 1, 1, 1, 2])) + r.below(3))
    adjA = [[] for _ in range(nA)]
    style = ["sparse", "dense", "perfect", "chain", "hub", "groups", "multi"][ctx.desc["k"] % 7]
    if style == "sparse":
        for a in range(nA):
            for _ in range(r.range(1, 3)):
                adjA[a].append(r.below(nB))
    elif style == "dense":
        nA, nB = min(nA, 60), min(nB, 60)
        adjA = [[b for b in range(nB) if r.below(3) == 0] or [r.below(nB)] for _ in range(nA)]
    elif style == "perfect":
        nB = nA
        perm = list(range(nB))
        r.shuffle(perm)
        for a in range(nA):
            adjA[a] = [perm[a]] + [r.below(nB) for _ in range(r.below(3))]
            r.shuffle(adjA[a])
    elif style == "chain":
        # a_i - b_i, a_i - b_{i+1}: long augmenting paths
        nB = nA + r.below(2)
        for a in range(nA):
            adjA[a] = [b for b in (a + 1, a) if b < nB]
    elif style == "hub":
        for a in range(nA):
            adjA[a] = [0] + ([r.below(nB)] if r.below(4) == 0 else [])
    elif style == "groups":
        gsz = max(1, nB // max(1, r.range(1, 8)))
        for a in range(nA):
            base = (a * 7919) % nB
            for _ in range(r.range(1, 4)):
                adjA[a].append((base + r.below(gsz)) % nB)
    else:  # multi: parallel edges
        for a in range(nA):
            b = r.below(nB)
            adjA[a] = [b] * r.range(1, 3) + [r.below(nB) for _ in range(r.below(2))]
    # every A node has at least one edge (the application takes the nodes with out-edges as set A)
    for a in range(nA):
        if not adjA[a]:
            adjA[a] = [r.below(nB)]
    g = R.Graph(nA + nB, algo == "pfpAlgo", "bipartite-" + style)
    for a in range(nA):
        for b in adjA[a]:
            g.adj[a].append((nA + b, 1 if algo == "pfpAlgo" else None))
    exp = R.hopcroft_karp(nA, nB, [sorted(set(x)) for x in adjA])
    threads = pick_threads(ctx, serial=(ex == "serial"))
    finish_sig(ctx, g, threads, "|" + ex)
    ctx.params.update({"numA": nA, "numB": nB})
    path = ctx.p("g.gr")
    R.write_gr(path, g)
    for t in threads:
        args = [path, "-symmetricGraph", "-inputType=fromFile", "-" + algo, "-" + ex, "-t", t]
        text = ctx.app("matching", args, threads=t)
        if text is None:
            if ctx.hung:
                break
            continue
        if ctx.verify_failed:
            # the cardinality is printed after the verifier: ask again without it, the answer itself is still checked
            args = args + ["-noverify"]
            rc, text = ctx.run(ctx.exes["matching"], args, threads=t)
            if rc != 0:
                continue
        ctx.expect("wrong-cardinality", "Matching of cardinality", exp, grab_int(text, r"Matching of cardinality: (\d+)"),
                   ctx.show_cmd(["maximum-cardinality-matching-cpu"] + args), {"numA": nA, "numB": nB})
        if "Verification successful." in text:
            ctx.count("own_verify_passed")
    ctx.count("thread_counts_compared", len(threads))


# ---------------------------------------------------------------------------------------------- max flow
FLOW_VARIANTS = ["nondet", "nondet-hl", "detBase", "detDisjoint"]


def case_maxflow(ctx):
    r = ctx.r
    variant = ctx.desc["args"]
    wmode = r.pick(["unit", "small", "zeros", "medium", "large", "huge", "unique"])
    style = ctx.desc["k"] % 4
    if style == 0:
        # layered network
        layers = r.range(2, 6)
        width = r.range(1, 5 if r.below(3) else 25)
        n = 2 + layers * width
        E = []
        L = [[0]] + [[1 + l * width + i for i in range(width)] for l in range(layers)] + [[n - 1]]
        for a, b in zip(L, L[1:]):
            for u in a:
                for v in b:
                    if r.below(3) or len(a) * len(b) <= 2:
                        E.append((u, v))
        s, t = 0, n - 1
    else:
        gg = R.gen_graph(r, ctx.desc["kind"], pick_n(ctx, cap=1200), directed=True)
        n = gg.n
        E = [(u, v) for u, v, _ in gg.edges()]
        if n < 2:
            n = 2
            E = [(0, 1)]
        s = r.below(n)
        t = (s + 1 + r.below(n - 1)) % n
    # documented precondition (GALOIS_ASSERT "Adjacency list cannot have duplicates"): no parallel edges
    E = list(dict.fromkeys(E))
    caps = R.gen_weights(r, len(E), wmode, 1 << 60)
    caps = [min(c, (1 << 30) - 1) for c in caps]
    g = R.Graph(n, True, "flow-layered" if style == 0 else "flow-" + ctx.desc["kind"])
    for (u, v), c in zip(E, caps):
        g.adj[u].append((v, c))
    exp = R.dinic(n, [(u, v, c) for u, v, c in g.edges()], s, t)
    threads = pick_threads(ctx)
    relabel = r.pick([0, 0, 1, 7, 50])
    if variant.startswith("det"):
        # the deterministic executor runs several barrier phases per round: keep it to few threads and large intervals
        threads = sorted(set(min(t, 4) for t in threads))
        relabel = r.pick([0, 0, 50])
    finish_sig(ctx, g, threads, "|cap=%s|relabel=%d|%s" % (wmode, relabel, "flow0" if exp == 0 else "flow+"))
    ctx.params.update({"source": s, "sink": t, "capacities": wmode, "relabel": relabel})
    for i, th in enumerate(threads):
        # the application writes <input>.pfp next to its input: one private copy per run
        path = ctx.p("g%d.gr" % i)
        R.write_gr(path, g, "<i")
        args = [path, "-sourceNode=%d" % s, "-sinkNode=%d" % t, "-t", th]
        if variant == "nondet-hl":
            args.append("-useHLOrder")
        elif variant != "nondet":
            args.append("-" + variant)
        if relabel:
            args.append("-relabel=%d" % relabel)
        text = ctx.app("maxflow", args, threads=th)
        if text is None:
            if ctx.hung:
                break
            continue
        ctx.expect("wrong-flow-value", "Flow is", exp, grab_int(text, r"Flow is (-?\d+)"),
                   ctx.show_cmd(["preflowpush-cpu"] + args), {"source": s, "sink": t})
        if "(Partially) Verified" in text:
            ctx.count("own_verify_passed")
    ctx.count("thread_counts_compared", len(threads))


# ---------------------------------------------------------------------------------------------- distributed apps
POLICIES = ["oec", "iec", "cvc", "cvc-iec", "hovc", "hivc", "ginger-o", "ginger-i", "fennel-o", "fennel-i", "sugar-o"]
NEEDS_TRANSPOSE = ("iec", "cvc-iec", "hivc", "ginger-i", "fennel-i")


def read_dist_output(ctx, outdir, hosts, n, cmd, conv):
    """per-node values from the files 00000000.. written by every host: every node exactly once"""
    vals = {}
    dup = None
    for h in range(hosts):
        f = os.path.join(outdir, "%08d" % h)
        try:
            with open(f) as fh:
                for line in fh:
                    t = line.split()
                    if len(t) != 2:
                        continue
                    gid = int(t[0])
                    if gid in vals and dup is None:
                        dup = gid
                    vals[gid] = conv(t[1])
        except OSError:
            ctx.violation("missing-output", {"fingerprint": "output file of host %d" % h, "cmd": cmd})
            return None
    ctx.count("output_files_read", hosts)
    if dup is not None or sorted(vals) != list(range(n)):
        missing = [v for v in range(n) if v not in vals][:10]
        ctx.violation("output-not-a-partition", {"duplicate_node": dup, "missing_nodes": missing, "nodes": n,
                                                 "lines": len(vals), "cmd": cmd})
        return None
    return [vals[v] for v in range(n)]


def dist_common_args(ctx, g, files, policy, hosts, ex, threads, outdir, symmetric):
    args = [files["g"]]
    if symmetric:
        args.append("-symmetricGraph")
    elif policy in NEEDS_TRANSPOSE or ctx.r.below(2):
        args.append("-graphTranspose=" + files["gT"])
    args += ["-partition=" + policy, "-exec=" + ex, "-t=%d" % threads, "-runs=%d" % ctx.r.pick([1, 1, 2]),
             "-output", "-outputLocation=" + outdir]
    return args


def case_dist(ctx):
    r = ctx.r
    app = ctx.desc["app"]
    policy, ex = ctx.desc["args"]
    symmetric = app in ("dist-cc", "dist-kcore")
    weighted = app == "dist-sssp"
    wmode = r.pick(R.WEIGHT_MODES) if weighted else None
    n = pick_n(ctx, big_ok=False, cap=3000)
    if app == "dist-pr":
        n = min(n, 1500)
    g = R.gen_graph(r, ctx.desc["kind"], n, directed=not symmetric and r.below(4) > 0, weighted=weighted,
                    wmode=wmode or "small", cap_total=(1 << 30) - 3)
    files = {"g": ctx.p("g.gr"), "gT": ctx.p("gT.gr")}
    R.write_gr(files["g"], g)
    if not symmetric:
        R.write_gr(files["gT"], R.transpose(g))
    hosts_list = sorted(set([1, r.range(2, 4), r.range(2, 4)])) if ctx.desc["k"] % 2 == 0 else [r.range(2, 4), 4]
    hosts_list = sorted(set(hosts_list))
    finish_sig(ctx, g, hosts_list, "|%s|%s" % (policy, ex))
    ctx.params.update({"hosts": hosts_list, "policy": policy, "exec": ex})
    src = sources_for(ctx, g, None) if app in ("dist-bfs", "dist-sssp") else None
    k = None
    tol = None
    if app == "dist-bfs":
        ref = [d if d is not None else DIST_INF for d in R.bfs_levels(g, src)]
    elif app == "dist-sssp":
        ref = [d if d is not None else DIST_INF for d in R.dijkstra(g, src)]
    elif app == "dist-cc":
        ref = R.components(g)
    elif app == "dist-kcore":
        degs = sorted(len(a) for a in g.adj)
        k = r.pick([1, 2, 3, degs[len(degs) // 2], degs[-1], r.range(0, degs[-1] + 1)])
        ref = [1 if a else 0 for a in R.kcore(g, k)]
    else:
        tol = r.pick([1e-6, 1e-6, 1e-5, 1e-4])
        ref = R.pagerank_unnormalized(g, ALPHA)
    sm_done = False
    rel = 0.0
    for hosts in hosts_list:
        outdir = ctx.p("out-%d" % hosts)
        os.makedirs(outdir, exist_ok=True)
        th = r.pick([1, 2, 3])
        args = dist_common_args(ctx, g, files, policy, hosts, ex, th, outdir, symmetric)
        if src is not None:
            args.append("-startNode=%d" % src)
        if app in ("dist-bfs", "dist-sssp", "dist-cc"):
            args.append("-maxIterations=%d" % (g.n + 1000))     # Sync execution stops after maxIterations rounds
        if app == "dist-kcore":
            args += ["-kcore=%d" % k, "-maxIterations=%d" % (g.n + 10000)]
        if app == "dist-pr":
            args += ["-tolerance=%g" % tol, "-maxIterations=1000"]
        text = ctx.app(app, args, mpi=hosts)
        if text is None:
            if ctx.hung:
                break
            continue
        cmd = ctx.show_cmd(["mpirun", "-np", hosts, DIST_TARGETS[app]] + args)
        ctx.count("dist_runs")
        conv = float if app == "dist-pr" else int
        got = read_dist_output(ctx, outdir, hosts, g.n, cmd, conv)
        shutil.rmtree(outdir, ignore_errors=True)
        if got is None:
            continue
        ctx.count("fingerprints_compared", g.n)
        ctx.count("per_node_values_compared", g.n)
        if app in ("dist-bfs", "dist-sssp", "dist-kcore"):
            bad = [v for v in range(g.n) if got[v] != ref[v]]
            if bad:
                v = bad[0]
                kind = {"dist-bfs": "wrong-distance", "dist-sssp": "wrong-distance", "dist-kcore": "wrong-core-membership"}[app]
                ctx.violation(kind, {"node": v, "expected": ref[v], "observed": got[v], "wrong_nodes": len(bad),
                                     "startNode": src, "k": k, "cmd": cmd})
        elif app == "dist-cc":
            # the same partition of the nodes (label values are not demanded)
            m1, m2 = {}, {}
            for v in range(g.n):
                a, b = ref[v], got[v]
                if m1.setdefault(a, b) != b or m2.setdefault(b, a) != a:
                    ctx.violation("wrong-components", {"node": v, "reference_component_of_node(min id)": a, "label": b,
                                                       "components_expected": len(set(ref)), "labels_observed": len(set(got)),
                                                       "cmd": cmd})
                    break
        else:
            # rounds the application reports having run (bulk-asynchronous execution on several hosts runs thousands of
            # local rounds, each of which may leave residuals <= tolerance unpropagated): the allowed deviation
            # grows with that number and becomes vacuous for very long asynchronous runs
            rounds = [int(x) for x in re.findall(r"NumIterations_\d+, HMAX, (\d+)", text)]
            rel, abs_ = pr_tolerances("residual", tol, ref, rounds=max(rounds) if rounds else None)
            if rel >= 0.5:
                ctx.count("pr_runs_with_vacuous_tolerance")
            worst = 0.0
            for v in range(g.n):
                b = rel * ref[v] + abs_ + 1e-5 * ref[v]
                worst = max(worst, abs(got[v] - ref[v]) / b)
                if abs(got[v] - ref[v]) > b:
                    ctx.violation("rank-outside-tolerance", {"node": v, "rank": got[v], "power_iteration": ref[v],
                                                             "allowed_deviation": b, "tolerance": tol, "cmd": cmd})
                    break
            if worst > 0.5:
                ctx.count("pr_runs_using_more_than_half_of_the_allowed_deviation")
        # once per case: the shared-memory application on the same input must print the fingerprints of this result
        if not sm_done and got is not None:
            sm_done = True
            compare_with_shared_memory(ctx, app, g, files, got, src, k, rel if app == "dist-pr" else 0.0)


def compare_with_shared_memory(ctx, app, g, files, got, src, k, dist_rel=0.0):
    t = ctx.r.pick([1, 2, 4])
    if app in ("dist-bfs", "dist-sssp"):
        name = "bfs" if app == "dist-bfs" else "sssp"
        if name not in ctx.exes:
            return
        fin = [d for d in got if d != DIST_INF]
        args = [files["g"], "-t", t, "-startNode", src, "-reportNode", src]
        text = ctx.app(name, args)
        if text is None:
            return
        cmd = ctx.show_cmd([CPU_TARGETS[name]] + args)
        ctx.count("shared_memory_comparisons")
        ctx.expect("differs-from-shared-memory", "# visited nodes", grab_int(text, r"# visited nodes is (\d+)"), len(fin), cmd)
        ctx.expect("differs-from-shared-memory", "Max distance", grab_int(text, r"Max distance is (\d+)"), max(fin), cmd)
        ctx.expect("differs-from-shared-memory", "Sum of visited distances",
                   grab_int(text, r"Sum of visited distances is (\d+)"), sum(fin), cmd)
    elif app == "dist-cc" and "cc" in ctx.exes:
        args = [files["g"], "-symmetricGraph", "-t", t]
        text = ctx.app("cc", args)
        if text is None:
            return
        ctx.count("shared_memory_comparisons")
        ctx.expect("differs-from-shared-memory", "Total components", grab_int(text, r"Total components: (\d+)"),
                   len(set(got)), ctx.show_cmd([CPU_TARGETS["cc"]] + args))
    elif app == "dist-kcore" and "kcore" in ctx.exes:
        args = [files["g"], "-symmetricGraph", "-t", t, "-kcore=%d" % k]
        text = ctx.app("kcore", args)
        if text is None:
            return
        ctx.count("shared_memory_comparisons")
        ctx.expect("differs-from-shared-memory", "Number of nodes in the k-core",
                   grab_int(text, r"Number of nodes in the %d-core is (\d+)" % k), sum(got),
                   ctx.show_cmd([CPU_TARGETS["kcore"]] + args))
    elif app == "dist-pr" and "pr-pull" in ctx.exes:
        # the shared-memory residual pull variant computes the same (unnormalised) ranks
        args = [files["gT"], "-transposedGraph", "-t", t, "-algo", "Residual", "-tolerance=1e-06"]
        text = ctx.app("pr-pull", args)
        if text is None:
            return
        if dist_rel >= 0.25:
            return      # long asynchronous run: the distributed result itself carries no useful tolerance
        ctx.count("shared_memory_comparisons")
        ref = got
        rel, abs_ = pr_tolerances("residual", 1e-6, ref)
        # both results lie within their own allowed deviation of the fixed point
        check_pagerank_top(ctx, parse_top(text), ref, 1.2 * (rel + dist_rel), abs_, ctx.show_cmd([CPU_TARGETS["pr-pull"]] + args),
                           kind="differs-from-shared-memory")


# ---------------------------------------------------------------------------------------------- plan
CASE_FN = {"bfs": case_bfs, "sssp": case_sssp, "cc": case_cc, "mst": case_mst, "triangles": case_triangles,
           "kcore": case_kcore, "pr-push": case_pr_push, "pr-pull": case_pr_pull, "mis": case_mis,
           "matching": case_matching, "maxflow": case_maxflow}

VARIANTS = {
    "bfs": [("%s%s" % (a, "-serial" if e == "SERIAL" else ""), (a, e)) for a, e in BFS_VARIANTS],
    "sssp": [(a if a != "AutoAlgo" else "auto", a) for a in SSSP_ALGOS],
    "cc": [(a, a) for a in CC_ALGOS],
    "mst": [("directed-input", "directed-input"), ("symmetric-input", "symmetric-input")],   # input modes, one algorithm
    "triangles": [("%s%s" % (a, "-relabel" if rl else ""), (a, rl)) for a, rl in TRI_VARIANTS],
    "kcore": [("Async", "Async"), ("Sync", "Sync")],
    "pr-push": [("Async", "Async"), ("Sync", "Sync")],
    "pr-pull": [("Topo", "Topo"), ("Residual", "Residual")],
    "mis": [(a, a) for a in MIS_ALGOS],
    "matching": [("%s-%s" % (a, e), (a, e)) for a, e in MATCH_VARIANTS],
    "maxflow": [(v, v) for v in FLOW_VARIANTS],
}
# graphs per variant: (quick, thorough)
PER_VARIANT = {"bfs": (4, 16), "sssp": (3, 14), "cc": (3, 14), "mst": (8, 40), "triangles": (4, 16), "kcore": (8, 40),
               "pr-push": (7, 30), "pr-pull": (0, 30), "mis": (4, 20), "matching": (0, 16), "maxflow": (0, 24)}
DIST_CASES = {"dist-bfs": 40, "dist-sssp": 40, "dist-cc": 36, "dist-kcore": 36, "dist-pr": 30}


def comp_name(app, vname, vargs):
    """component = application + algorithm variant; the two input modes of the spanning-tree application are one
    algorithm and belong to the case signature, not to the component"""
    if app == "mst":
        return app
    return "%s:%s" % (app, vname)


def build_plan(tier, seed):
    plan = []
    apps = QUICK_APPS if tier == "quick" else ALL_CPU_APPS
    kinds = list(R.KINDS)
    rot = R.Rng(R.mix(seed, 99))
    rot.shuffle(kinds)
    ki = 0
    for app in apps:
        per = PER_VARIANT[app][0 if tier == "quick" else 1]
        for vname, vargs in VARIANTS[app]:
            for k in range(per):
                plan.append({"app": app, "variant": vname, "comp": comp_name(app, vname, vargs), "args": vargs, "k": k,
                             "kind": kinds[ki % len(kinds)], "fn": CASE_FN[app]})
                ki += 1
    return plan


def build_dist_plan(seed):
    plan = []
    kinds = list(R.KINDS)
    rot = R.Rng(R.mix(seed, 77))
    rot.shuffle(kinds)
    ki = 0
    for app in sorted(DIST_TARGETS):
        for k in range(DIST_CASES[app]):
            policy = POLICIES[(k + rot.below(3)) % len(POLICIES)] if k >= len(POLICIES) else POLICIES[k]
            ex = "Sync" if (k // len(POLICIES) + k) % 2 == 0 else "Async"
            plan.append({"app": app, "variant": "%s-%s" % (policy, ex), "comp": "%s:%s" % (app, policy), "args": (policy, ex),
                         "k": k, "kind": kinds[ki % len(kinds)], "fn": case_dist})
            ki += 1
    return plan


# ---------------------------------------------------------------------------------------------- driver glue
def _run_case(idx, desc, seed, tier, exes, root):
    ctx = Ctx(idx, seed, tier, exes, root, desc)
    try:
        desc["fn"](ctx)
    except Inconclusive as e:
        ctx.inconclusive = str(e)
    except Exception as e:   # a harness bug must not look like a verdict
        import traceback
        ctx.inconclusive = "harness error in case %d (%s): %s" % (idx, desc["comp"], traceback.format_exc()[-1500:])
    finally:
        if os.environ.get("C20_KEEP"):      # development aid: keep the inputs of the listed cases
            if str(idx) in os.environ["C20_KEEP"].split(","):
                shutil.copytree(ctx.dir, "/var/tmp/c20/keep-%d" % idx, dirs_exist_ok=True)
        shutil.rmtree(ctx.dir, ignore_errors=True)
    return ctx


def _reap_stale(root):
    try:
        for n in os.listdir(root):
            if n[:1] == "p" and n[1:].isdigit() and not os.path.exists("/proc/" + n[1:]):
                shutil.rmtree(os.path.join(root, n), ignore_errors=True)
    except OSError:
        pass


def _emit(log, results):
    for ctx in results:
        log.begin(ctx.idx, ctx.params)
        for k, d in ctx.viol:
            log.violation(k, d)
        if ctx.inconclusive:
            log.inconclusive(ctx.inconclusive)
        obs = dict(ctx.obs)
        obs["oracle_violations"] = len(ctx.viol)
        log.end(ctx.idx, ctx.sig, ctx.nontrivial, obs)


def _scratch():
    os.makedirs(SCRATCH_ROOT, exist_ok=True)
    _reap_stale(SCRATCH_ROOT)
    root = os.path.join(SCRATCH_ROOT, "p%d" % os.getpid())
    shutil.rmtree(root, ignore_errors=True)
    os.makedirs(root)
    return root


def _cleanup(root):
    shutil.rmtree(root, ignore_errors=True)
    _reap_stale(SCRATCH_ROOT)
    try:
        os.rmdir(SCRATCH_ROOT)
    except OSError:
        pass


def cpu_run(log, tier, seed):
    drv = _driver()
    bad = R.selftest()
    if bad:
        log.inconclusive("reference self-test failed: " + bad)
        return
    apps = QUICK_APPS if tier == "quick" else ALL_CPU_APPS
    exes = {}
    for a in apps:
        e = drv.find_exe("plain", CPU_TARGETS[a])
        if not e:
            log.inconclusive("application binary %s not found in the plain build" % CPU_TARGETS[a])
            return
        exes[a] = e
    exes["mis-dump"] = drv.find_exe("plain", "c20_mis_dump")
    if not exes["mis-dump"]:
        log.inconclusive("c20_mis_dump not built")
        return
    plan = build_plan(tier, seed)
    only = os.environ.get("C20_APPS")   # development aid: comma separated application names
    if only:
        plan = [d for d in plan if d["app"] in only.split(",")]
    root = _scratch()
    try:
        with cf.ThreadPoolExecutor(max_workers=PAR) as ex:
            results = list(ex.map(lambda i: _run_case(i, plan[i], seed, tier, exes, root), range(len(plan))))
    finally:
        _cleanup(root)
    _emit(log, results)


def dist_run(log, tier, seed):
    drv = _driver()
    if not shutil.which("mpirun"):
        log.inconclusive("mpirun not found")
        return
    exes = {}
    for a, tname in DIST_TARGETS.items():
        e = drv.find_exe("dist", tname)
        if not e:
            log.inconclusive("application binary %s not found in the dist build" % tname)
            return
        exes[a] = e
    for a in ("bfs", "sssp", "cc", "kcore", "pr-pull"):
        e = drv.find_exe("plain", CPU_TARGETS[a])
        if e:
            exes[a] = e
    plan = build_dist_plan(seed)
    only = os.environ.get("C20_APPS")
    if only:
        plan = [d for d in plan if d["app"] in only.split(",")]
    root = _scratch()
    try:
        with cf.ThreadPoolExecutor(max_workers=PAR_DIST) as ex:
            results = list(ex.map(lambda i: _run_case(100000 + i, plan[i], seed, tier, exes, root), range(len(plan))))
    finally:
        _cleanup(root)
    _emit(log, results)


def c20(tier):
    apps = QUICK_APPS if tier == "quick" else ALL_CPU_APPS
    targets = [("plain", CPU_TARGETS[a]) for a in apps] + [("plain", "c20_mis_dump")]
    runs = [dict(name="cpu-apps", py=cpu_run, extra_targets=targets)]
    if tier == "thorough":
        runs.append(dict(name="dist-apps", py=dist_run, extra_targets=[("dist", t) for t in DIST_TARGETS.values()]))
    return runs


SPEC = dict(
    runs=c20,
    technique="runtime monitoring (differential, black box): the real Lonestar application binaries are run on generated .gr "
              "graphs; every result they print or write is compared with independent textbook reference algorithms, with "
              "the applications' own verification step left on as a second monitor",
    level_text="Eleven shared-memory applications (bfs, sssp, connected components, Boruvka spanning forest, triangle "
               "counting, k-core, PageRank push and pull, maximal independent set, bipartite matching, preflow-push max "
               "flow; quick tier: the first eight) with every selectable algorithm variant (serial and parallel), thread "
               "counts sampled from 1..16 (quick: 1,2,4,8), on random and structured graphs (single node, paths, cycles, "
               "stars, grids, cliques, trees, disconnected, isolated nodes, self loops, parallel edges, power law, hubs "
               "above the edge-tile sizes; unit/zero/small/large/huge weights) from 1 to 2*10^3 nodes (thorough: 10^4 "
               "nodes / 10^5 edges). bfs/sssp are re-run with sampled -startNode/-reportNode values; all printed "
               "fingerprints must equal BFS/Dijkstra, union-find, Kruskal, exact triangle count, peeling, Hopcroft-Karp "
               "and Dinic results; PageRank must lie within the deviation its stopping rule allows from a double "
               "precision power iteration and must order clearly separated nodes the same way; the independent set "
               "(dumped by a helper that compiles the unmodified application source) must be independent and maximal. "
               "Thorough tier: five distributed applications under mpirun with 1-4 hosts, eleven partitioning "
               "policies, Sync/Async execution; their per-node output files are compared in full with the references "
               "and with the fingerprints of the shared-memory application. Held on the inputs and schedules explored.",
    level_note="Trusts the Python references (cross-checked against brute force in a self-test at every run). "
               "The applications print fingerprints, not full vectors (except the distributed ones and the independent-set "
               "dump), so a wrong per-node value that leaves every printed fingerprint unchanged is only caught through "
               "the sampled report nodes and the application's own verifier.",
    rule="case = (application, algorithm variant, one generated graph, set of thread counts [hosts, policy, execution "
         "model]); non-trivial iff the graph has >= 2 nodes and >= 1 edge; distinct by (application:variant, graph "
         "shape, size class, has-edges, thread/host set, weight class / tolerance / option class)",
    require={"app_runs": 400, "fingerprints_compared": 1500, "own_verify_passed": 200, "report_nodes_checked": 100,
             "sets_checked": 50, "thread_counts_compared": 300},
    assumptions=[
        "inputs stay inside each application's documented domain: symmetric graphs (-symmetricGraph) for connected "
        "components, triangles, k-core, independent set; transposed file for pagerank-pull; weighted files for sssp, "
        "spanning tree, max flow; bipartite A->B layout for matching; no parallel edges for preflowpush (its own "
        "GALOIS_ASSERT); start/report/source/sink nodes exist; at least one node",
        "sssp: 32-bit distances -- the sum of all edge weights stays below DIST_INFINITY (2^31-2; 2^30-1 for the "
        "distributed app), so no path length can overflow",
        "spanning tree: non-negative weights below 2^28 (the application's doubling weight limit overflows int above ~1.3*10^9)",
        "triangle counting is checked on simple symmetric graphs (self loops allowed, no parallel edges: the variants "
        "count multi-edges differently and the README speaks of an undirected graph)",
        "k-core: a node's degree is the number of entries in its adjacency list (what both the shared-memory and the "
        "distributed application document: out-edge count of the symmetric graph)",
        "independent set is checked on graphs without self loops",
        "PageRank: reference = fixed point of x = 0.15 + 0.85 * sum x_u/outdeg(u) (no dangling redistribution; divided "
        "by n for the topological variant), the formulation the sources state; allowed deviation derived from each "
        "variant's stopping rule (see pr_tolerances); runs that report 'failed to converge' are not compared",
        "matching -pfpAlgo reads edge capacities from the file: its inputs carry 32-bit edge data 1",
        "distributed connected components: the partition into components is compared, not the label values",
        "a wall-clock timeout (300 s per process, retried once with 600 s) is inconclusive, never a violation; non-termination "
        "is reported (key ...:hang) only by the livelock rule: a single-threaded (-t 1) run of a shared-memory application "
        "consumed 60 + (nodes+edges)/50 seconds of CPU time (from /proc, not wall-clock) without terminating; a slow "
        "multi-threaded run is never convicted itself, it is probed with -t 1",
        "every application process is limited to 8 GB of address space (they normally map ~1.5 GB)",
    ],
)
