from .common import H, TOPOS_QUICK, TOPOS_THOROUGH


def c05(tier):
    runs = []
    if tier == "quick":
        for t in TOPOS_QUICK:
            runs.append(H("c05_barriers", "plain", 40, t, timeout_per_case=30))
        # SMT numbering: thread ids do not fill the sockets in order (0,0,1,1,0,0,1,1)
        runs.append(H("c05_barriers", "plain", 48, "smt:2x2x2", timeout_per_case=30))
        runs.append(H("c05_barriers", "plain", 16, "12,12,8", cpus=4, timeout_per_case=60,
                      params=dict(maxphases=60, oversub=1)))
        runs.append(H("c05_barriers", "asan", 20, "4,4,4,4", timeout_per_case=60))
    else:
        for t in TOPOS_THOROUGH:
            # phases capped: 10000-phase cases with 16 spinning threads take minutes each on a shared machine
            runs.append(H("c05_barriers", "plain", 100, t, timeout_per_case=60, params=dict(maxphases=1500)))
            runs.append(H("c05_barriers", "asan", 30, t, timeout_per_case=90, params=dict(maxphases=1500)))
        for cpus in (2, 4):
            runs.append(H("c05_barriers", "plain", 80, "12,12,8", cpus=cpus, timeout_per_case=120,
                          params=dict(maxphases=200, oversub=1)))
        runs.append(H("c05_barriers", "tsan", 60, "4,4,4,4", timeout_per_case=120, params=dict(maxphases=100)))
    return runs


SPEC = dict(
    runs=c05,
    technique="runtime monitoring: phase-stamp oracle on real barriers under stress, virtual topologies, failpoint delays; logical hang monitor",
    level_text="Every barrier implementation (topo, counting, MCS, dissemination, pthread, simple, system getBarrier) is driven "
               "for thousands of phases with 1..max participants, reinit between regions, on 1-4 socket virtual topologies, "
               "with injected delays at failpoints inside the barriers and CPU over-subscription; an oracle checks after every "
               "wait that all participants had entered, and a logical hang monitor decides 'all return'. Held on the executions observed, not all schedules.",
    level_note="Trusts x86-TSO for the relaxed phase stamps, the /proc-based hang monitor, and that virtual topologies (hook) exercise the same code as real multi-socket machines.",
    rule="case = (barrier implementation, participant counts of 1-3 consecutive regions with reinit between, "
         "phases, delay pattern, failpoint/spin noise) on one virtual topology; non-trivial iff some region has "
         ">=2 participants and >=2 phases; distinct by (impl, participant counts, sockets, delay mode, noise level, "
         "whether a thread was observed already in a later phase)",
    require={"waits": 1000, "ahead_observed": 1, "multi_socket_cases": 1},
    assumptions=["x86-TSO: relaxed stores before wait() are visible to a thread that observed the arrival",
                 "virtual topologies come from the GALOIS_VERIF_TOPO hook; threads are not bound"],
)
