"""Independent Python reference for C12 (graph files and conversions): .gr codec (versions 1 and 2),
graph generators, text-format writers/parsers and reference implementations of the graph-convert
conversions. Shares no code with Galois; written from the layout comment in libgalois/src/FileGraph.cpp,
the `graph-convert --help` text and the format comments above each conversion in graph-convert.cpp.

Graph model: G.n nodes, G.adj[src] = list of (dst, data) in file order, data = bytes of length G.width
(b"" when there is no edge data). Typed views of the data are produced on demand (etype_*).
"""
import math
import struct


class GrError(Exception):
    pass


class Graph:
    __slots__ = ("n", "adj", "width", "version", "pad", "kind", "trailing")

    def __init__(self, n=0, width=0, version=1):
        self.n = n
        self.adj = [[] for _ in range(n)]
        self.width = width
        self.version = version
        self.pad = 0
        self.kind = ""
        self.trailing = 0

    def m(self):
        return sum(len(a) for a in self.adj)

    def edges(self):
        for s, a in enumerate(self.adj):
            for d, w in a:
                yield s, d, w

    def copy(self):
        g = Graph(self.n, self.width, self.version)
        g.adj = [list(a) for a in self.adj]
        g.kind = self.kind
        return g

    def multiset(self):
        """per-node sorted edge lists (canonical form for multiset comparison)"""
        return [sorted(a) for a in self.adj]


# ------------------------------------------------------------------ codec
def encode_gr(g, version=None, v2pad=False):
    """Version 2 has no pad word after the 64-bit destinations (v2pad=True writes one: an INVALID file, kept only
    for negative tests)."""
    version = version or g.version
    m = g.m()
    out = [struct.pack("<QQQQ", version, g.width, g.n, m)]
    run = 0
    idx = []
    for a in g.adj:
        run += len(a)
        idx.append(run)
    out.append(struct.pack("<%dQ" % g.n, *idx))
    dsts = [d for a in g.adj for d, _ in a]
    if version == 1:
        out.append(struct.pack("<%dI" % m, *dsts))
        if m % 2:
            out.append(b"\0\0\0\0")
    else:
        out.append(struct.pack("<%dQ" % m, *dsts))
        if v2pad and m % 2:
            out.append(b"\0" * 8)
    if g.width:
        for a in g.adj:
            for _, w in a:
                if len(w) != g.width:
                    raise GrError("encode: edge data of %d bytes in a graph of width %d" % (len(w), g.width))
                out.append(w)
    return b"".join(out)


def decode_gr(b, allow_trailing=False):
    """Decode and fully validate (version 2: no pad word). allow_trailing: a version-1 file
    longer than its header says is decoded from its prefix (Graph.trailing = number of extra bytes)."""
    if len(b) < 32:
        raise GrError("file shorter than the 32-byte header (%d bytes)" % len(b))
    version, esz, n, m = struct.unpack_from("<QQQQ", b, 0)
    if version not in (1, 2):
        raise GrError("unknown version %d" % version)
    if n == 0 and m != 0:
        raise GrError("numNodes == 0 but numEdges == %d" % m)
    if n > (1 << 40) or m > (1 << 40) or esz > (1 << 20):
        raise GrError("implausible header n=%d m=%d esz=%d" % (n, m, esz))
    dw = 4 if version == 1 else 8
    base = 32 + 8 * n + dw * m
    data = esz * m
    if base > len(b):
        raise GrError("truncated: index/destination arrays need %d bytes, file has %d (n=%d m=%d)" % (base, len(b), n, m))
    rest = len(b) - base
    if version == 1:
        want = 4 if m % 2 else 0
        if rest - want == data and rest >= want:
            pad = want
        elif data == 0 and rest == 0:
            pad = 0
        elif allow_trailing and rest > want + data:
            g = decode_gr(b[:base + want + data])
            g.trailing = rest - want - data
            return g
        else:
            raise GrError("version 1: length %d does not match header (expected %d; n=%d m=%d esz=%d)" %
                          (len(b), base + want + data, n, m, esz))
    else:
        if rest == data:
            pad = 0
        elif m % 2 and rest - 8 == data:
            raise GrError("version 2: length %d = header + 8: a pad word after the destinations (the version 2 layout "
                          "has none; expected %d bytes)" % (len(b), base + data))
        else:
            raise GrError("version 2: length %d does not match header (expected %d; n=%d m=%d esz=%d)" %
                          (len(b), base + data, n, m, esz))
    g = Graph(n, esz, version)
    g.pad = pad
    idx = struct.unpack_from("<%dQ" % n, b, 32)
    dsts = struct.unpack_from("<%d%s" % (m, "I" if version == 1 else "Q"), b, 32 + 8 * n)
    doff = base + pad
    prev = 0
    for s in range(n):
        end = idx[s]
        if end < prev:
            raise GrError("outIdx decreases at node %d" % s)
        if end > m:
            raise GrError("outIdx[%d] = %d exceeds numEdges %d" % (s, end, m))
        a = g.adj[s]
        for e in range(prev, end):
            d = dsts[e]
            if d >= n:
                raise GrError("edge %d of node %d: destination %d >= numNodes %d" % (e, s, d, n))
            a.append((d, b[doff + esz * e: doff + esz * (e + 1)] if esz else b""))
        prev = end
    if prev != m:
        raise GrError("last outIdx = %d but numEdges = %d" % (prev, m))
    return g


def read_gr(path):
    with open(path, "rb") as f:
        return decode_gr(f.read())


def write_gr(path, g, version=None, v2pad=False):
    with open(path, "wb") as f:
        f.write(encode_gr(g, version, v2pad))


# ------------------------------------------------------------------ edge types of the tools
ETYPES = {
    # name: (width, struct code, kind)
    "void": (0, None, "void"),
    "int32": (4, "<i", "int"),
    "uint32": (4, "<I", "uint"),
    "int64": (8, "<q", "int"),
    "uint64": (8, "<Q", "uint"),
    "float32": (4, "<f", "float"),
    "float64": (8, "<d", "float"),
}


def et_width(et):
    return ETYPES[et][0]


def et_pack(et, v):
    w, code, kind = ETYPES[et]
    if not w:
        return b""
    return struct.pack(code, v)


def et_unpack(et, b):
    w, code, kind = ETYPES[et]
    if not w:
        return None
    return struct.unpack(code, b)[0]


def et_range(et):
    w, code, kind = ETYPES[et]
    if kind == "int":
        return -(1 << (8 * w - 1)), (1 << (8 * w - 1)) - 1
    if kind == "uint":
        return 0, (1 << (8 * w)) - 1
    return None


def f32(x):
    """round a Python float to the nearest float32 (as a Python float)"""
    return struct.unpack("<f", struct.pack("<f", x))[0]


def fmt_cxx_default(et, v):
    """what `std::ostream << v` prints with default formatting (precision 6, %g) for value v of type et"""
    kind = ETYPES[et][2]
    if kind in ("int", "uint"):
        return str(v)
    s = "%g" % v
    return s


def fmt_exact(et, v):
    """decimal text that parses back to exactly v for the type"""
    kind = ETYPES[et][2]
    if kind in ("int", "uint"):
        return str(v)
    if et == "float32":
        s = "%.9g" % v
    else:
        s = "%.17g" % v
    return s


# ------------------------------------------------------------------ RNG (splitmix64)
MASK = (1 << 64) - 1


class Rng:
    def __init__(self, seed):
        self.s = (seed & MASK) or 0x9e3779b9

    def next(self):
        self.s = (self.s + 0x9e3779b97f4a7c15) & MASK
        z = self.s
        z = ((z ^ (z >> 30)) * 0xbf58476d1ce4e5b9) & MASK
        z = ((z ^ (z >> 27)) * 0x94d049bb133111eb) & MASK
        return z ^ (z >> 31)

    def below(self, n):
        return self.next() % n if n else 0

    def range(self, lo, hi):
        return lo + self.below(hi - lo + 1)

    def chance(self, num, den):
        return self.below(den) < num

    def pick(self, seq):
        return seq[self.below(len(seq))]

    def unit(self):
        return (self.next() >> 11) / 9007199254740992.0

    def shuffle(self, l):
        for i in range(len(l) - 1, 0, -1):
            j = self.below(i + 1)
            l[i], l[j] = l[j], l[i]


def mix(a, b):
    return Rng((a * 0x9e3779b97f4a7c15 + b + 0x1234567) & MASK).next()


# ------------------------------------------------------------------ graph generator
SHAPES = ["empty", "single", "isolated", "selfloops", "parallel", "path", "cycle", "outstar", "instar",
          "grid", "powerlaw", "random", "dense", "lastonly", "firstonly", "bipartite", "mixed", "gaps"]


def gen_structure(r, shape, n):
    """list of (src, dst) and node count"""
    E = []
    if shape == "empty":
        return 0, E
    if shape == "single":
        return 1, [(0, 0)] * r.below(4)
    n = max(n, 2)
    if shape == "isolated":
        return n, E
    if shape == "selfloops":
        for s in range(n):
            for _ in range(0 if r.below(4) == 0 else 1 + r.below(3)):
                E.append((s, s))
    elif shape == "parallel":
        n = 2 + r.below(min(n, 6))
        for _ in range(4 + r.below(40)):
            s = r.below(n)
            d = s if r.below(3) == 0 else r.below(n)
            E += [(s, d)] * (1 + r.below(5))
    elif shape == "path":
        E = [(s, s + 1) for s in range(n - 1)]
    elif shape == "cycle":
        E = [(s, (s + 1) % n) for s in range(n)]
    elif shape in ("outstar", "instar"):
        hub = [0, n - 1, r.below(n)][r.below(3)]
        ws = r.below(2)
        for v in range(n):
            if v == hub and not ws:
                continue
            E.append((hub, v) if shape == "outstar" else (v, hub))
    elif shape == "grid":
        w = 1 + r.below(min(n, 32))
        h = max(1, n // w)
        n = w * h
        back = r.below(2)
        for y in range(h):
            for x in range(w):
                v = y * w + x
                if x + 1 < w:
                    E.append((v, v + 1))
                if y + 1 < h:
                    E.append((v, v + w))
                if back and x > 0:
                    E.append((v, v - 1))
                if back and y > 0:
                    E.append((v, v - w))
    elif shape == "powerlaw":
        perm = list(range(n))
        r.shuffle(perm)
        a = 0.8 + r.unit() * 0.8
        top = min(n, 300)
        for rank in range(1, n + 1):
            d = int(top / (rank ** a))
            if d == 0 and r.below(3) == 0:
                d = 1
            s = perm[rank - 1]
            for _ in range(d):
                u = r.unit()
                E.append((s, min(n - 1, int(n * u * u * u))))
    elif shape == "random":
        for _ in range(r.below(n * 5 + 1)):
            E.append((r.below(n), r.below(n)))
    elif shape == "dense":
        n = 2 + r.below(min(n, 24))
        for s in range(n):
            for d in range(n):
                if r.below(8):
                    E.append((s, d))
    elif shape in ("lastonly", "firstonly"):
        s = n - 1 if shape == "lastonly" else 0
        for _ in range(1 + r.below(n * 2)):
            E.append((s, r.below(n)))
    elif shape == "bipartite":
        half = n // 2
        for _ in range(r.below(n * 4 + 1)):
            E.append((r.below(half), half + r.below(n - half)))
    elif shape == "gaps":
        # few used ids spread over a large id space (ids with gaps)
        used = sorted(set(r.below(n) for _ in range(2 + r.below(12))))
        for _ in range(1 + r.below(40)):
            E.append((r.pick(used), r.pick(used)))
    else:  # mixed
        live = 1 + r.below(n)
        for _ in range(r.below(n * 4 + 1)):
            s = r.below(live)
            c = r.below(8)
            d = s if c == 0 else (n - 1 if c == 1 else (0 if c == 2 else r.below(n)))
            E += [(s, d)] * (2 + r.below(3) if r.below(6) == 0 else 1)
        if r.below(2):
            for _ in range(1 + r.below(4)):
                E.append((n - 1, r.below(n)))
    return n, E


def gen_value(r, et, mode):
    """a value of edge type et. mode: 'small' (0..7 / k/8), 'unique' handled by caller, 'wide' (full range /
    many significant digits)"""
    w, code, kind = ETYPES[et]
    if kind == "void":
        return None
    if kind in ("int", "uint"):
        lo, hi = et_range(et)
        if mode == "small":
            return r.below(8)
        if mode == "medium":
            return r.below(1000000)  # prints exactly with 6 significant digits
        c = r.below(6)
        if c == 0:
            return hi
        if c == 1:
            return lo
        if c == 2:
            return r.range(max(lo, -1000), min(hi, 1000))
        return r.range(lo, hi)
    # float
    if mode in ("small", "medium"):
        return r.range(-64, 64) / 8.0 if mode == "small" else float(r.below(100000))
    c = r.below(4)
    if et == "float32":
        if c == 0:
            return f32(r.unit() * 1e-3)
        if c == 1:
            return f32(-(r.unit() * 1e7))
        return f32((r.unit() - 0.5) * 10 ** r.range(-3, 8))
    if c == 0:
        return r.unit() * 1e-9
    return (r.unit() - 0.5) * 10 ** r.range(-5, 12)


def gen_graph(r, et, max_nodes, shape=None, vmode=None, version=1):
    shape = shape or r.pick(SHAPES)
    c = r.below(4)
    n = 1 + r.below([8, 40, 200, max_nodes][c] if max_nodes > 200 else min(max_nodes, [8, 40, 200, 200][c]))
    n = min(n, max_nodes)
    n, E = gen_structure(r, shape, n)
    g = Graph(n, et_width(et), version)
    g.kind = shape
    vmode = vmode or r.pick(["small", "medium", "wide", "unique"])
    k = 0
    for s, d in E:
        k += 1
        if et == "void":
            w = b""
        elif vmode == "unique":
            w = et_pack(et, float(k) if ETYPES[et][2] == "float" else k)
        else:
            w = et_pack(et, gen_value(r, et, vmode))
        g.adj[s].append((d, w))
    return g


def force_parity(g, r, odd, et="void", value=None):
    """add one edge if needed so that the edge count has the wanted parity"""
    if g.n and (g.m() % 2) != (1 if odd else 0):
        s = r.below(g.n)
        w = b"" if not g.width else (value if value is not None else bytes([r.below(256) for _ in range(g.width)]))
        g.adj[s].append((r.below(g.n), w))


# ------------------------------------------------------------------ reference transformations
def transpose(g):
    t = Graph(g.n, g.width, g.version)
    for s, d, w in g.edges():
        t.adj[d].append((s, w))
    return t


def permute(g, p):
    o = Graph(g.n, g.width, g.version)
    for s, d, w in g.edges():
        o.adj[p[s]].append((p[d], w))
    return o


def symmetric_closure(g):
    o = g.copy()
    for s, d, w in g.edges():
        if s != d:
            o.adj[d].append((s, w))
    return o


def first_diff(exp, obs, limit=6):
    """exp/obs: lists of per-node sorted edge lists; returns a small witness dict or None"""
    if len(exp) != len(obs):
        return {"what": "node count", "expected": len(exp), "observed": len(obs)}
    for s in range(len(exp)):
        if exp[s] != obs[s]:
            def show(a):
                return ["%d:%s" % (d, w.hex()) for d, w in a[:limit]] + (["..."] if len(a) > limit else [])
            # first differing position
            i = 0
            while i < len(exp[s]) and i < len(obs[s]) and exp[s][i] == obs[s][i]:
                i += 1
            return {"what": "edges of node", "node": s, "expected_degree": len(exp[s]), "observed_degree": len(obs[s]),
                    "first_diff_at": i, "expected": show(exp[s][max(0, i - 1):]), "observed": show(obs[s][max(0, i - 1):])}
    return None
