from .common import H


def c17(tier):
    runs = []
    env = {}
    for np_, cases, mt in ((1, 6, 4), (2, 8, 3), (3, 5, 2), (4, 5, 2)):
        runs.append(H("c17_net", "dist", cases, mpi=np_, params=dict(maxthreads=mt), env=env,
                      timeout_per_case=120, timeout_base=120))
    return runs


SPEC = dict(
    runs=c17,
    technique="runtime monitoring",
    level_text="",
    level_note="",
    rule="",
    require={},
    assumptions=[],
)
