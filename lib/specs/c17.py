from .common import H

# mpirun must not pin a rank to one core (Galois would then see a 1-thread machine and the
# sender threads, the receiver threads and the communication thread of a host would share it)
MPI_ENV = {"OMPI_MCA_hwloc_base_binding_policy": "none"}


def net(cfg, np_, cases, maxthreads, **params):
    p = dict(maxthreads=maxthreads)
    p.update(params)
    return H("c17_net", cfg, cases, mpi=np_, params=p, env=MPI_ENV, timeout_per_case=90, timeout_base=180)


def am(cfg, np_, cases, **params):
    # part C: active messages (sendMsg / broadcast / sendSimple / broadcastSimple + handleReceives); one thread per host
    return H("c17_am", cfg, cases, mpi=np_, params=params, env=MPI_ENV, timeout_per_case=90, timeout_base=180)


def c17(tier):
    runs = []
    if tier == "quick":
        # part A: serialisation round trips under ASan+UBSan (single process, no MPI)
        runs.append(H("c17_ser", "dist-asan", 4000, params=dict(special_period=80), timeout_per_case=0.2, timeout_base=180))
        # part B: the network layer, 1..4 hosts (np x busy threads kept around 8: every host also spins a communication thread)
        runs.append(net("dist", 1, 100, 4))
        runs.append(net("dist", 2, 140, 3))
        runs.append(net("dist", 3, 80, 2))
        runs.append(net("dist", 4, 60, 2))
        # part C: the active-message layer above sendTagged
        runs.append(am("dist", 1, 60))
        runs.append(am("dist", 2, 100))
        runs.append(am("dist", 3, 80))
        runs.append(am("dist", 4, 80))
        runs.append(am("dist-asan", 3, 30))
    else:
        runs.append(H("c17_ser", "dist-asan", 60000, params=dict(special_period=1500), timeout_per_case=0.1, timeout_base=300))
        runs.append(H("c17_ser", "dist", 100000, params=dict(special_period=2500), timeout_per_case=0.1, timeout_base=300))
        runs.append(net("dist", 1, 500, 4))
        runs.append(net("dist", 2, 700, 4))
        runs.append(net("dist", 3, 500, 3))
        runs.append(net("dist", 4, 450, 3))
        runs.append(net("dist-asan", 1, 120, 4, maxcount=4000))
        runs.append(net("dist-asan", 2, 160, 3, maxcount=4000))
        runs.append(net("dist-asan", 3, 100, 2, maxcount=4000))
        runs.append(net("dist-asan", 4, 100, 2, maxcount=4000))
        for np_ in (1, 2, 3, 4):
            runs.append(am("dist", np_, 500, maxops=120))
            runs.append(am("dist-asan", np_, 100, maxops=60))
    return runs


SPEC = dict(
    runs=c17,
    technique="runtime monitoring + sanitizers: (A) generated values of every serialisable type family are written with the real "
              "gSerialize overloads and read back with gDeserialize from receive buffers started at every byte offset 0..15 "
              "(ASan+UBSan build: alignment, bounds, null); (B) under mpirun -np 1..4 the real buffered network layer carries "
              "seed-determined message plans (sendTagged / recieveTagged / flush / getHostBarrier().wait() only, used like Gluon, "
              "CuSP and libdist/Barrier.cpp) and every receiver re-generates and compares every planned message; (C) the active-message layer "
              "above it (sendMsg, broadcast with self true/false from every host as root, sendSimple, broadcastSimple, "
              "handleReceives) carries seed-determined operation lists and every landing-pad invocation is matched against the plan",
    level_text="(A) Round trips held for every type family that Serialize.h can serialise (scalars, trivially copyable structs, "
               "std::pair, std::string, vectors of trivially and non-trivially copyable elements, nested vectors, std::deque, "
               "gdeque, PODResizeableArray, DynamicBitSet, galois::Pair/TupleOfThree, CopyableAtomic/CopyableArray, a type with "
               "the serialize trait, std::tuple targets, lazy sequences, nested SerializeBuffer/DeSerializeBuffer, random "
               "concatenations) for generated values incl. empty/boundary sizes, for every start alignment of the receive "
               "buffer, into fresh and re-used targets, each field consuming exactly the bytes it produced. (B) Every planned "
               "message (1 B .. 8 MB, around the 1400-byte aggregation threshold, up to 1e4 per pair, 1-4 sender threads, 1-2 "
               "receiver threads, self-sends, two interleaved tags, tag wrap-around, with and without host barriers between "
               "phases) arrived exactly once, byte-identical, in stream order, under the tag polled. (C) Every active "
               "message (payload 0 B .. 1 MB, around the aggregation threshold, several rounds in flight, 1-4 hosts, every host as "
               "broadcast root, self-delivery on and off, destination = self included) ran the named landing pad on every "
               "destination exactly once with the sending host as source and exactly the serialised payload (size checked before "
               "any byte is read), and nothing else was dispatched. Held on the executions observed, not all schedules.",
    level_note="Trusts: Open MPI (uninstrumented), the /dev/shm block used for barrier stamps and progress counters, x86-TSO. "
               "Only the buffered MPI backend exists in this build (no LCI, no bare-MPI mode). 'message-lost' is a liveness "
               "verdict with a patience window (all senders flushed, receiver polling, no host received anything for 40 s). "
               "gSized() is only a reserve() hint and not part of the statement: compared and reported, not judged. "
               "Type combinations that Serialize.h cannot compile (gSerialize of std::deque / std::tuple / std::set / std::map / "
               "InsertBag / top-level CopyableAtomic, std::pair or galois::Pair holding a string or container at top level, "
               "vectors of deque/gdeque/PODResizeableArray) cannot be exercised at run time.",
    rule="part A: case = one record of 1..6 top-level fields (type combination drawn from 113 registered concrete types in 13 "
         "type families, or a nested-buffer / concatenation / special-input construction: 21 components) x one generated value x 17 reads (receive buffer started at "
         "byte offsets 0..15 with fresh and re-used targets, plus the direct SerializeBuffer->DeSerializeBuffer hand-over); "
         "non-trivial iff >=1 byte was produced and all 16 payload alignments were read; distinct by (family, type combination, "
         "record size class). part B: case = 1..5 consecutive phases on np hosts, each phase a seed-determined plan (streams per "
         "(src,dst,tag,sender thread), counts, sizes, sender/receiver thread counts, receive discipline, flush pattern, skew, "
         "barrier or not); non-trivial iff >=2 phases and >=2 messages; part C: case = 1..4 rounds of per-host operation lists "
         "(form, destination / self flag, payload size and bytes), quota reached after every round or only at the end, optional "
         "handleReceives() polls between sends and host barriers between rounds; non-trivial iff >=2 landing-pad invocations; "
         "distinct by (mode, np, rounds, wait discipline, poll period, number of hosts acting as broadcast root, whether empty / "
         "threshold-sized / >=256 KB payloads occurred); part B is distinct by (mode, np, size classes of the phases, "
         "numbers of multi-threaded-send / multi-threaded-receive / two-tag phases, tag wrap, whether aggregation and phase skew "
         "between hosts were observed)",
    require={"roundtrips": 5000, "alignments_covered": 16, "reused_target_reads": 1000,
             "msgs_received": 20000, "aggregating_cases": 1, "mt_send_phases": 1, "mt_recv_phases": 1, "two_tag_phases": 1,
             "phase_skew_observed": 1, "msgs_under_32B": 1, "msgs_at_threshold": 1, "msgs_1MB_or_more": 1, "host_barriers": 1,
             "tag_wrap_cases": 1, "self_msgs": 1, "buffers_sent_over_threshold": 1, "buffers_sent_on_flush": 1,
             "net_cases_np1": 1, "net_cases_np2": 1, "net_cases_np3": 1, "net_cases_np4": 1,
             "am_network_deliveries": 5000, "am_self_deliveries": 100, "am_broadcast_deliveries_above_root": 100,
             "am_broadcast_self_true": 50, "am_broadcast_self_false": 50, "am_sendMsg": 100, "am_sendSimple": 100,
             "am_broadcastSimple": 50, "am_empty_payloads": 10, "am_payloads_at_threshold": 10, "am_payloads_256KB_or_more": 5,
             "am_cases_all_hosts_root": 3, "am_cases_np1": 1, "am_cases_np2": 1, "am_cases_np3": 1, "am_cases_np4": 1},
    assumptions=["active messages: landing pads travel as raw function addresses, so the c17_am executable is linked -no-pie and the "
                 "ranks compare pad addresses before the first case; each host issues its operations from one thread, so the k-th "
                 "invocation from a source is the k-th operation of that source addressed to this host (FIFO per pair and tag is "
                 "part of the statement); only handleReceives() is used to drain tag 0",
                 "Open MPI itself is correct (it is the transport, not the code under test) and MPI ranks share one machine "
                 "(shared-memory BTL), so network-level reordering/loss can only come from Galois' own queues and threads",
                 "barrier stamps and progress counters travel through a /dev/shm block (cross-process atomics, x86-TSO)",
                 "tags are consumed in phase order on every host (a receive queue exposes only the tag at its head; polling an "
                 "older/newer tag than the head is a usage error the harness never commits); zero-length messages are outside "
                 "the statement (sizes 1 byte and up)",
                 "deserialisation targets hold no string content before the read except in the dedicated component "
                 "'string(reused target)'; strings contain no NUL except in 'string(embedded NUL)'; empty PODResizeableArray / "
                 "DynamicBitSet values only in their '(empty)' components (each isolates one class of inputs under one key)",
                 "message-lost is declared after a 40 s window in which every owing sender had flushed, the receiver polled and no "
                 "host received anything (liveness cannot be decided without some patience)"],
)
