from .common import H, TOPOS_QUICK, TOPOS_THOROUGH

P = dict(focus="c08")


def c08(tier):
    runs = []
    if tier == "quick":
        for t in TOPOS_QUICK:
            runs.append(H("c01_foreach", "plain", 300, t, timeout_per_case=15, params=dict(P, maxitems=2000)))
        runs.append(H("c01_foreach", "plain", 100, "12,12,8", cpus=4, timeout_per_case=40,
                      params=dict(P, oversub=1, maxitems=400)))
        runs.append(H("c01_foreach", "asan", 100, "4,4,4,4", timeout_per_case=40, params=dict(P, maxitems=1500)))
    else:
        for t in TOPOS_THOROUGH:
            runs.append(H("c01_foreach", "plain", 1500, t, timeout_per_case=15, params=dict(P, maxitems=8000)))
            runs.append(H("c01_foreach", "asan", 250, t, timeout_per_case=60, params=dict(P, maxitems=3000)))
        for cpus in (2, 4):
            runs.append(H("c01_foreach", "plain", 400, "12,12,8", cpus=cpus, timeout_per_case=60,
                          params=dict(P, oversub=1, maxitems=600)))
        runs.append(H("c01_foreach", "tsan", 200, "4,4,4,4", timeout_per_case=90, params=dict(P, maxitems=800)))
    return runs


SPEC = dict(
    runs=c08,
    technique="runtime monitoring: offline sweep over start/commit tickets with levels for BulkSynchronous and OBIM-with-barrier; "
              "conservation oracle in the same run; failpoint delays around the barriers of the level switch",
    level_text="Generated programs whose items carry a level (tree depth for BulkSynchronous; a priority that children never make "
               "more urgent for OrderedByIntegerMetric with the barrier option, ascending and descending, monotonic variant, several "
               "containers) are run with 1..max threads on 1-4 socket topologies with delays injected around the level switch. Every "
               "item's first start and its commit point take a ticket from one atomic counter; an offline sweep demands "
               "min start(round r+1) > max commit(round r) for BulkSynchronous, and for OBIM+barrier that no item starts inside the "
               "interval [parent's commit, own commit) of a strictly more urgent item. C01's conservation oracle runs on the same loops. "
               "Held on the executions observed.",
    level_note="Trusts the ticket clock (one relaxed atomic RMW counter, consistent with real time); 'committed' for the oracle is the "
               "operator's commit point, which precedes the runtime's commit, so the inequalities demand no more than the statement. "
               "BulkSynchronous with conflict detection is a separate, known-broken class (C01 finding) and is not level-checked.",
    rule="case = (level-synchronous worklist, threads, generated levelled program, conflict detection on/off for OBIM, noise); "
         "non-trivial iff >=2 threads committed and (aborts or pushes happened); distinct by (worklist, cd, sockets, threads, items, objects, aborts, threads used)",
    require={"levels_checked": 1000, "items_committed": 10000, "multi_socket_cases": 10},
    assumptions=["operators only create work of equal or lower urgency (by construction of the generated programs)"],
)
