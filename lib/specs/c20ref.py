"""Independent references for C20 (Lonestar applications): a .gr writer (version 1 layout, written from the
layout comment in libgalois/src/FileGraph.cpp), seeded graph generators and textbook reference algorithms in pure
stdlib Python. Shares no code with Galois.

Graph model: n nodes 0..n-1, adj[u] = list of (v, w) in file order; w is an int (weight / capacity) or None when
the file carries no edge data.
"""
import heapq
import struct
from collections import deque

MASK = (1 << 64) - 1


# ------------------------------------------------------------------ RNG (splitmix64)
class Rng:
    def __init__(self, seed):
        self.s = (seed & MASK) or 0x9e3779b9

    def next(self):
        self.s = (self.s + 0x9e3779b97f4a7c15) & MASK
        z = self.s
        z = ((z ^ (z >> 30)) * 0xbf58476d1ce4e5b9) & MASK
        z = ((z ^ (z >> 27)) * 0x94d049bb133111eb) & MASK
        return z ^ (z >> 31)

    def below(self, n):
        return self.next() % n if n > 0 else 0

    def range(self, lo, hi):
        return lo + self.below(hi - lo + 1)

    def pick(self, seq):
        return seq[self.below(len(seq))]

    def unit(self):
        return (self.next() >> 11) / 9007199254740992.0

    def shuffle(self, l):
        for i in range(len(l) - 1, 0, -1):
            j = self.below(i + 1)
            l[i], l[j] = l[j], l[i]

    def sample(self, n, k):
        """k distinct values below n (k <= n)"""
        if k * 3 > n:
            l = list(range(n))
            self.shuffle(l)
            return l[:k]
        s = set()
        while len(s) < k:
            s.add(self.below(n))
        return sorted(s)


def mix(a, b):
    return Rng((a * 0x9e3779b97f4a7c15 + b + 0x51ed27) & MASK).next()


# ------------------------------------------------------------------ graph + .gr writer
class Graph:
    __slots__ = ("n", "adj", "weighted", "kind", "tags")

    def __init__(self, n, weighted=False, kind=""):
        self.n = n
        self.adj = [[] for _ in range(n)]
        self.weighted = weighted
        self.kind = kind
        self.tags = set()

    def m(self):
        return sum(len(a) for a in self.adj)

    def edges(self):
        for u, a in enumerate(self.adj):
            for v, w in a:
                yield u, v, w

    def add(self, u, v, w=None):
        self.adj[u].append((v, w))

    def edge_list_text(self, limit=60):
        """witness text: 'u v [w]' lines (truncated)"""
        out = []
        for u, v, w in self.edges():
            out.append("%d %d" % (u, v) if w is None else "%d %d %d" % (u, v, w))
            if len(out) >= limit:
                out.append("... (%d edges in total)" % self.m())
                break
        return out


def write_gr(path, g, code="<I"):
    """Version 1 .gr: header (version=1, sizeof edge data, numNodes, numEdges; 4 x uint64 LE), outIdx[numNodes]
    (uint64, index one past each node's last edge), outs[numEdges] (uint32), 4 bytes of padding if numEdges is odd,
    edge data[numEdges] (only when sizeof edge data != 0). code: struct code of the 4-byte edge data."""
    m = g.m()
    esz = 4 if g.weighted else 0
    out = [struct.pack("<QQQQ", 1, esz, g.n, m)]
    run = 0
    idx = []
    for a in g.adj:
        run += len(a)
        idx.append(run)
    out.append(struct.pack("<%dQ" % g.n, *idx))
    out.append(struct.pack("<%dI" % m, *[v for a in g.adj for v, _ in a]))
    if m % 2:
        out.append(b"\0\0\0\0")
    if esz:
        out.append(struct.pack("<%d%s" % (m, code[-1]), *[w for a in g.adj for _, w in a]))
    with open(path, "wb") as f:
        f.write(b"".join(out))


def transpose(g):
    t = Graph(g.n, g.weighted, g.kind)
    for u, v, w in g.edges():
        t.adj[v].append((u, w))
    return t


def symmetrize(g):
    """every edge in both directions (a self loop is kept as it is: it is its own reverse)"""
    s = Graph(g.n, g.weighted, g.kind)
    s.tags = set(g.tags)
    for u, v, w in g.edges():
        s.adj[u].append((v, w))
        if u != v:
            s.adj[v].append((u, w))
    return s


def simplify(g, drop_loops=True, drop_multi=True):
    """first occurrence of every (u, v) kept"""
    s = Graph(g.n, g.weighted, g.kind)
    s.tags = set(g.tags)
    for u in range(g.n):
        seen = set()
        for v, w in g.adj[u]:
            if drop_loops and v == u:
                continue
            if drop_multi:
                if v in seen:
                    continue
                seen.add(v)
            s.adj[u].append((v, w))
    return s


def sort_adj(g):
    for a in g.adj:
        a.sort(key=lambda t: t[0])


def has_self_loops(g):
    return any(v == u for u, v, _ in g.edges())


def has_multi_edges(g):
    for a in g.adj:
        if len(set(v for v, _ in a)) != len(a):
            return True
    return False


# ------------------------------------------------------------------ structure generators
KINDS = ["single", "pair", "path", "cycle", "star", "grid", "clique", "tree", "random", "dense", "powerlaw",
         "disconnected", "selfloops", "parallel", "lollipop", "isolated", "bintree", "twocliques"]


def gen_structure(r, kind, n):
    """(node count, list of directed (u, v)). Structures are 'undirected in spirit': callers symmetrize or orient."""
    E = []
    if kind == "single":
        return 1, E
    n = max(n, 2)
    if kind == "pair":
        return 2, [(0, 1)]
    if kind == "isolated":
        return n, E
    if kind == "path":
        perm = list(range(n))
        if r.below(2):
            r.shuffle(perm)
        E = [(perm[i], perm[i + 1]) for i in range(n - 1)]
    elif kind == "cycle":
        E = [(i, (i + 1) % n) for i in range(n)]
    elif kind == "star":
        hub = r.pick([0, n - 1, r.below(n)])
        E = [(hub, v) for v in range(n) if v != hub]
    elif kind == "grid":
        w = max(1, min(n, r.pick([1, 2, 3, 5, 8, 16, 31, int(n ** 0.5) or 1])))
        h = max(1, n // w)
        n = w * h
        for y in range(h):
            for x in range(w):
                v = y * w + x
                if x + 1 < w:
                    E.append((v, v + 1))
                if y + 1 < h:
                    E.append((v, v + w))
    elif kind == "clique":
        n = min(n, 40)
        E = [(u, v) for u in range(n) for v in range(u + 1, n)]
    elif kind == "twocliques":
        k = min(max(2, n // 2), 25)
        n = 2 * k
        E = [(u, v) for u in range(k) for v in range(u + 1, k)]
        E += [(k + u, k + v) for u in range(k) for v in range(u + 1, k)]
        if r.below(2):
            E.append((r.below(k), k + r.below(k)))
    elif kind == "tree":
        for v in range(1, n):
            E.append((r.below(v), v))
    elif kind == "bintree":
        for v in range(1, n):
            E.append(((v - 1) // 2, v))
    elif kind == "random":
        m = r.below(n * r.pick([1, 2, 4, 8]) + 1)
        for _ in range(m):
            E.append((r.below(n), r.below(n)))
        E = [(u, v) for u, v in E if u != v]
        E = list(dict.fromkeys(E))
    elif kind == "dense":
        n = min(n, 60)
        for u in range(n):
            for v in range(n):
                if u != v and r.below(3):
                    E.append((u, v))
    elif kind == "powerlaw":
        # zipf-like out-degrees, skewed destinations
        perm = list(range(n))
        r.shuffle(perm)
        a = 0.7 + r.unit() * 0.8
        top = min(n - 1, 400)
        for rank in range(1, n + 1):
            d = int(top / (rank ** a))
            if d == 0 and r.below(2) == 0:
                d = 1
            s = perm[rank - 1]
            seen = set()
            for _ in range(d):
                u = r.unit()
                t = perm[min(n - 1, int(n * u * u * u))]
                if t != s and t not in seen:
                    seen.add(t)
                    E.append((s, t))
    elif kind == "disconnected":
        # several components of different shapes plus isolated nodes (also the last node)
        parts = r.range(2, 6)
        base = 0
        for _ in range(parts):
            k = max(1, r.below(max(2, n // parts)))
            sub = r.pick(["path", "cycle", "star", "clique", "tree", "random", "single"])
            kn, kE = gen_structure(r, sub, k)
            E += [(base + u, base + v) for u, v in kE]
            base += kn
        n = base + r.range(1, 4)
    elif kind == "selfloops":
        m = r.below(n * 3 + 1)
        for _ in range(m):
            u, v = r.below(n), r.below(n)
            if u != v:
                E.append((u, v))
        E = list(dict.fromkeys(E))
        for u in range(n):
            if r.below(3) == 0:
                E.append((u, u))
    elif kind == "parallel":
        m = r.below(n * 2 + 1) + 1
        for _ in range(m):
            u, v = r.below(n), r.below(n)
            if u != v:
                E += [(u, v)] * r.range(1, 4)
    elif kind == "lollipop":
        k = min(max(3, n // 3), 20)
        n = max(n, k)
        E = [(u, v) for u in range(k) for v in range(u + 1, k)]
        for v in range(k, n):
            E.append((v - 1, v))
    else:
        raise ValueError(kind)
    return n, E


def gen_weights(r, m, mode, cap_total):
    """m non-negative ints whose sum stays <= cap_total. modes: unit, small (0..9), zeros (mostly 0), medium, large,
    huge (a few very large values), unique"""
    W = []
    for i in range(m):
        if mode == "unit":
            w = 1
        elif mode == "small":
            w = r.below(10)
        elif mode == "zeros":
            w = 0 if r.below(4) else r.below(5)
        elif mode == "medium":
            w = r.below(1000)
        elif mode == "large":
            w = r.below(1 << 20)
        elif mode == "huge":
            w = r.below(1 << 28) if r.below(8) == 0 else r.below(100)
        elif mode == "unique":
            w = i + 1
        else:
            raise ValueError(mode)
        W.append(w)
    tot = sum(W)
    if tot > cap_total and tot > 0:
        # scale down (keeps zeros, keeps order of magnitude differences)
        f = cap_total / float(tot)
        W = [int(w * f) for w in W]
    return W


WEIGHT_MODES = ["unit", "small", "zeros", "medium", "large", "huge", "unique"]


def gen_graph(r, kind, n, directed, weighted=False, wmode="small", cap_total=(1 << 31) - 3, symmetric_weights=True):
    """directed=False: symmetric closure (weights equal in both directions); directed=True: each structural edge gets
    a random orientation (sometimes both)"""
    n, E = gen_structure(r, kind, n)
    g = Graph(n, weighted, kind)
    if not directed:
        W = gen_weights(r, len(E), wmode, cap_total // 2) if weighted else [None] * len(E)
        for (u, v), w in zip(E, W):
            g.adj[u].append((v, w))
            if u != v:
                g.adj[v].append((u, w))
    else:
        D = []
        for u, v in E:
            c = r.below(8)
            if kind in ("powerlaw", "dense", "random", "parallel", "selfloops"):
                D.append((u, v))
            elif c < 4:
                D.append((u, v))
            elif c < 6:
                D.append((v, u))
            else:
                D.append((u, v))
                D.append((v, u))
        W = gen_weights(r, len(D), wmode, cap_total) if weighted else [None] * len(D)
        for (u, v), w in zip(D, W):
            g.adj[u].append((v, w))
    if r.below(3) == 0:
        for a in g.adj:
            r.shuffle(a)
    return g


# ------------------------------------------------------------------ reference algorithms
def bfs_levels(g, src):
    dist = [None] * g.n
    dist[src] = 0
    q = deque([src])
    adj = g.adj
    while q:
        u = q.popleft()
        d = dist[u] + 1
        for v, _ in adj[u]:
            if dist[v] is None:
                dist[v] = d
                q.append(v)
    return dist


def dijkstra(g, src):
    dist = [None] * g.n
    dist[src] = 0
    pq = [(0, src)]
    adj = g.adj
    done = [False] * g.n
    while pq:
        d, u = heapq.heappop(pq)
        if done[u]:
            continue
        done[u] = True
        for v, w in adj[u]:
            nd = d + w
            if dist[v] is None or nd < dist[v]:
                dist[v] = nd
                heapq.heappush(pq, (nd, v))
    return dist


class UnionFind:
    def __init__(self, n):
        self.p = list(range(n))
        self.sz = [1] * n

    def find(self, x):
        p = self.p
        r = x
        while p[r] != r:
            r = p[r]
        while p[x] != r:
            p[x], x = r, p[x]
        return r

    def union(self, a, b):
        a, b = self.find(a), self.find(b)
        if a == b:
            return False
        if self.sz[a] < self.sz[b]:
            a, b = b, a
        self.p[b] = a
        self.sz[a] += self.sz[b]
        return True


def components(g):
    """labels[v] = smallest node id of v's (weakly) connected component"""
    uf = UnionFind(g.n)
    for u, v, _ in g.edges():
        uf.union(u, v)
    small = {}
    for v in range(g.n):
        r = uf.find(v)
        if r not in small:
            small[r] = v
    return [small[uf.find(v)] for v in range(g.n)]


def component_stats(labels):
    sizes = {}
    for l in labels:
        sizes[l] = sizes.get(l, 0) + 1
    return {"components": len(sizes), "nontrivial": sum(1 for s in sizes.values() if s >= 2),
            "largest": max(sizes.values()) if sizes else 0}


def kruskal(g):
    """(forest weight, number of trees, number of forest edges) of the undirected multigraph underlying g"""
    E = sorted((w, u, v) for u, v, w in g.edges() if u != v)
    uf = UnionFind(g.n)
    tot = 0
    cnt = 0
    for w, u, v in E:
        if uf.union(u, v):
            tot += w
            cnt += 1
    return tot, g.n - cnt, cnt


def triangles(g):
    """number of node triples {a,b,c} pairwise adjacent in the simple undirected graph underlying g"""
    nb = [set() for _ in range(g.n)]
    for u, v, _ in g.edges():
        if u != v:
            nb[u].add(v)
            nb[v].add(u)
    # orient by (degree, id)
    rank = sorted(range(g.n), key=lambda v: (len(nb[v]), v))
    pos = [0] * g.n
    for i, v in enumerate(rank):
        pos[v] = i
    up = [set(x for x in nb[v] if pos[x] > pos[v]) for v in range(g.n)]
    t = 0
    for v in range(g.n):
        for x in up[v]:
            t += len(up[v] & up[x])
    return t


def triangles_brute(g):
    nb = [set() for _ in range(g.n)]
    for u, v, _ in g.edges():
        if u != v:
            nb[u].add(v)
            nb[v].add(u)
    t = 0
    for a in range(g.n):
        for b in nb[a]:
            if b > a:
                for c in nb[b]:
                    if c > b and c in nb[a]:
                        t += 1
    return t


def kcore(g, k):
    """alive[v] after repeatedly removing nodes whose degree (number of adjacency entries towards alive nodes,
    g symmetric) is < k"""
    deg = [len(a) for a in g.adj]
    alive = [True] * g.n
    q = deque(v for v in range(g.n) if deg[v] < k)
    for v in q:
        alive[v] = False
    while q:
        u = q.popleft()
        for v, _ in g.adj[u]:
            if alive[v]:
                deg[v] -= 1
                if deg[v] < k:
                    alive[v] = False
                    q.append(v)
    return alive


def pagerank_unnormalized(g, alpha=0.85, eps=1e-13, max_iter=5000):
    """fixed point of x = (1-alpha) + alpha * sum_{u->v} x[u]/outdeg(u) (no redistribution of the rank of
    dangling nodes, ranks not normalised): the formulation of the residual/push variants. Power iteration in
    double precision until the largest change is < eps."""
    n = g.n
    outdeg = [len(a) for a in g.adj]
    x = [1.0 - alpha] * n
    adj = [[v for v, _ in a] for a in g.adj]
    for it in range(max_iter):
        nx = [1.0 - alpha] * n
        for u in range(n):
            d = outdeg[u]
            if d:
                c = alpha * x[u] / d
                for v in adj[u]:
                    nx[v] += c
        diff = max(abs(a - b) for a, b in zip(x, nx)) if n else 0.0
        x = nx
        if diff < eps:
            break
    return x


def is_independent(g, inset):
    for u, v, _ in g.edges():
        if u != v and inset[u] and inset[v]:
            return (u, v)
    return None


def is_maximal(g, inset):
    """every node outside the set has a neighbour inside"""
    for u in range(g.n):
        if not inset[u]:
            if not any(inset[v] for v, _ in g.adj[u] if v != u):
                return u
    return None


def hopcroft_karp(nA, nB, adjA):
    """maximum matching cardinality; adjA[a] = list of b in 0..nB-1"""
    INF = 1 << 60
    matchA = [-1] * nA
    matchB = [-1] * nB
    result = 0
    while True:
        dist = [INF] * nA
        q = deque()
        for a in range(nA):
            if matchA[a] < 0:
                dist[a] = 0
                q.append(a)
        found = False
        while q:
            a = q.popleft()
            for b in adjA[a]:
                a2 = matchB[b]
                if a2 < 0:
                    found = True
                elif dist[a2] == INF:
                    dist[a2] = dist[a] + 1
                    q.append(a2)
        if not found:
            break
        # iterative DFS along the layered graph
        it = [0] * nA
        for root in range(nA):
            if matchA[root] >= 0:
                continue
            stack = [root]
            path = []
            while stack:
                a = stack[-1]
                if it[a] < len(adjA[a]):
                    b = adjA[a][it[a]]
                    it[a] += 1
                    a2 = matchB[b]
                    if a2 < 0:
                        # augment along stack
                        path.append(b)
                        for i in range(len(stack) - 1, -1, -1):
                            aa = stack[i]
                            bb = path[i]
                            matchA[aa] = bb
                            matchB[bb] = aa
                        result += 1
                        stack = []
                        break
                    if dist[a2] == dist[a] + 1:
                        path.append(b)
                        stack.append(a2)
                else:
                    dist[a] = INF
                    stack.pop()
                    if path:
                        path.pop()
    return result


def matching_brute(nA, nB, adjA):
    """simple augmenting-path matching (Kuhn), used to cross-check Hopcroft-Karp on small inputs"""
    matchB = [-1] * nB

    def try_(a, seen):
        for b in adjA[a]:
            if b in seen:
                continue
            seen.add(b)
            if matchB[b] < 0 or try_(matchB[b], seen):
                matchB[b] = a
                return True
        return False
    import sys
    sys.setrecursionlimit(max(10000, sys.getrecursionlimit()))
    return sum(1 for a in range(nA) if try_(a, set()))


def dinic(n, edges, s, t):
    """max flow value; edges = list of (u, v, cap)"""
    head = [[] for _ in range(n)]
    to = []
    cap = []
    for u, v, c in edges:
        if u == v:
            continue
        head[u].append(len(to))
        to.append(v)
        cap.append(c)
        head[v].append(len(to))
        to.append(u)
        cap.append(0)
    flow = 0
    while True:
        level = [-1] * n
        level[s] = 0
        q = deque([s])
        while q:
            u = q.popleft()
            for e in head[u]:
                if cap[e] > 0 and level[to[e]] < 0:
                    level[to[e]] = level[u] + 1
                    q.append(to[e])
        if level[t] < 0:
            return flow
        it = [0] * n
        # iterative blocking flow
        while True:
            stack = [s]
            pe = []
            while stack:
                u = stack[-1]
                if u == t:
                    break
                adv = False
                while it[u] < len(head[u]):
                    e = head[u][it[u]]
                    v = to[e]
                    if cap[e] > 0 and level[v] == level[u] + 1:
                        stack.append(v)
                        pe.append(e)
                        adv = True
                        break
                    it[u] += 1
                if not adv:
                    stack.pop()
                    if pe:
                        pe.pop()
                        it[stack[-1]] += 1
            if not stack:
                break
            f = min(cap[e] for e in pe)
            for e in pe:
                cap[e] -= f
                cap[e ^ 1] += f
            flow += f


def maxflow_brute(n, edges, s, t):
    """Ford-Fulkerson with BFS (Edmonds-Karp) on an adjacency matrix, to cross-check Dinic on small inputs"""
    c = [[0] * n for _ in range(n)]
    for u, v, w in edges:
        if u != v:
            c[u][v] += w
    flow = 0
    while True:
        par = [-1] * n
        par[s] = s
        q = deque([s])
        while q and par[t] < 0:
            u = q.popleft()
            for v in range(n):
                if par[v] < 0 and c[u][v] > 0:
                    par[v] = u
                    q.append(v)
        if par[t] < 0:
            return flow
        f = 1 << 62
        v = t
        while v != s:
            f = min(f, c[par[v]][v])
            v = par[v]
        v = t
        while v != s:
            c[par[v]][v] -= f
            c[v][par[v]] += f
            v = par[v]
        flow += f


def selftest():
    """cross-checks between the references (run once per check run)"""
    r = Rng(12345)
    for i in range(60):
        kind = r.pick(KINDS)
        g = gen_graph(r, kind, r.range(1, 30), directed=False)
        if triangles(g) != triangles_brute(g):
            return "triangles"
        nA, nB = r.range(1, 8), r.range(1, 8)
        adjA = [[r.below(nB) for _ in range(r.below(4))] for _ in range(nA)]
        if hopcroft_karp(nA, nB, adjA) != matching_brute(nA, nB, adjA):
            return "matching"
        n = r.range(2, 9)
        E = [(r.below(n), r.below(n), r.below(20)) for _ in range(r.below(25))]
        if dinic(n, E, 0, n - 1) != maxflow_brute(n, E, 0, n - 1):
            return "maxflow"
        gw = gen_graph(r, kind, r.range(1, 30), directed=True, weighted=True, wmode="unit")
        if bfs_levels(gw, 0) != dijkstra(gw, 0):
            return "bfs-vs-dijkstra"
    return None
