from .common import H

# GALOIS_DEBUG_SKIP: Debug (asan) builds do not print gDebug lines. VERIF_NO_HANG_MONITOR: a rank that spins while it waits for a
# descheduled peer process looks exactly like a hang to the in-process monitor; liveness is left to the driver watchdog (inconclusive)
# and to the logical send bound of the asynchronous loop. The MPI ranks spin while they wait for each other, so the
# process count x threads is kept <= 8 (topology "2": two cores per rank) and every run is bounded by case counts.
ENV = dict(GALOIS_DEBUG_SKIP=1, VERIF_NO_HANG_MONITOR=1)

QUICK = {1: 30, 2: 70, 3: 70, 4: 75}
THOROUGH = {1: 100, 2: 300, 3: 300, 4: 450}


def c18(tier):
    runs = []
    plan = QUICK if tier == "quick" else THOROUGH
    for np in (4, 3, 2, 1):
        runs.append(H("c18_gluon", "dist", plan[np], "2" if np > 1 else "1,1", env=ENV, mpi=np, params=dict(salt=np),
                      timeout_per_case=15, timeout_base=150))
    # ASan + UBSan build with assertions on (Gluon's own asserts, e.g. bit counts of sender and receiver), all metadata modes
    for np, n in (((2, 12), (4, 12)) if tier == "quick" else ((2, 80), (3, 80), (4, 80))):
        runs.append(H("c18_gluon", "dist-asan", n, "2", env=ENV, mpi=np, params=dict(salt=20 + np),
                      timeout_per_case=40, timeout_base=240))
    if tier == "thorough":
        # same plan, other random inputs, sockets = 2 x 1 core (other thread-pool layout), no streaming policies
        for np in (2, 4):
            runs.append(H("c18_gluon", "dist", 150, "1,1", env=ENV, mpi=np, params=dict(salt=10 + np, streaming=0),
                          timeout_per_case=15, timeout_base=150))
    return runs


SPEC = dict(
    runs=c18,
    technique="runtime monitoring (differential): the real CuSP partitioner + GluonSubstrate run under mpirun -np 1..4 on "
              "generated graphs; every round's pre-values, contributions and post-values of all proxies of all hosts are "
              "gathered with plain MPI on a private communicator and compared on rank 0 with an independent reference reduction",
    level_text="For every generated case: graph (16 shapes, 2..6000 nodes incl. hubs above GenericHVC's 1000-edge threshold) -> "
               ".gr + transpose -> cuspPartitionGraph<Policy, NodeData, void> called exactly as DistBench/Input.h does for the 11 "
               "schemes (oec, iec, hovc, hivc, cvc, cvc-iec, ginger-o/i, fennel-o/i, sugar-o) x iterate-out / iterate-in / "
               "symmetric -> GluonSubstrate constructed as DistBench/Start.h does (incl. enforced metadata mode and "
               "partitionAgnostic) -> 3..12 rounds on the same substrate. A round: one of 9 fields declared with the library's "
               "GALOIS_SYNC_STRUCTURE_REDUCE_{MIN,MAX,ADD,SET,PAIR_WISE_ADD_ARRAY,MIN_ARRAY,ADD_ARRAY,SET_ARRAY} + BITSET macros "
               "(atomic<uint32_t>, uint32_t, uint64_t, double, std::vector<double>; node fields and external arrays); one of the 9 "
               "(write, read) location pairs; with its bitset or without one; BSP or the apps' asynchronous DGTerminator loop; "
               "update densities none / one proxy / sparse / half / most / all / one-host-only / mirrors-only / masters-only / "
               "whole nodes; written by 1-2 threads through the apps' idioms (atomicMin + bitset.set on improvement, atomicAdd + "
               "set, assignment + set); a random host enters the sync late. Rounds either re-initialise all proxies (any change of "
               "field / locations / bitset / async between rounds: buffer and bitset reuse) or continue on the values and bitset "
               "left by the previous sync with the same configuration (app-like iteration; for add either reset_mirrorField like "
               "pagerank or consumption of the read values like kcore). Oracle: expected(node) = reduce(master pre-value, all "
               "contributions written at eligible proxies); the master and every mirror readable at the read location must hold "
               "exactly that value after the sync (floating point fields only receive exactly summable integers). Held on all "
               "executions observed - not on all graphs, write patterns or message arrival orders.",
    level_note="Trusts the reference reduction (about 60 lines of integer/double arithmetic in c18_main.cpp), plain MPI collectives, "
               "and that eligibility/readability derived from each host's local edges is what the partitioning policy guarantees. "
               "Message arrival orders are whatever Open MPI over shared memory and the OS scheduler produce, plus one delayed host "
               "per round; np x threads <= 8 on a shared 16-core machine.",
    rule="case = (graph shape/size, scheme, iterate direction, hosts, threads, enforced metadata mode, partitionAgnostic) with 3..12 "
         "sync rounds on one substrate; non-trivial iff hosts >= 2 and at least one checked proxy holds a value that crossed hosts "
         "(a master changed by a mirror's contribution, or a mirror changed by another proxy's contribution); distinct by (scheme, "
         "direction, hosts, threads, mode, agnostic, per-round (field, write loc, read loc, bitset, async, continuation kind, density))",
    require={"rounds": 400, "mirrors_checked": 20000, "cross_host_updates": 10000, "multi_contribution_nodes": 2000,
             "written_mirrors": 5000, "async_rounds": 20, "async_rounds_enforced_mode": 8, "continuation_rounds": 80, "nobitset_rounds": 40,
             "rounds_mode_auto": 100, "rounds_mode_bitset": 20, "rounds_mode_offsets": 20, "rounds_mode_gids": 20,
             "rounds_mode_dense": 20, "rank0_built_reduce_bitset": 20, "rank0_built_reduce_offsets": 20,
             "rank0_built_reduce_gids": 20, "rank0_built_reduce_dense": 20, "rank0_built_broadcast_bitset": 20,
             "rank0_built_broadcast_offsets": 20, "rank0_built_broadcast_gids": 20, "rank0_built_broadcast_dense": 20, "cases_np2": 10, "cases_np3": 10, "cases_np4": 10},
    assumptions=[
        "Eligibility (derived from GluonSubstrate::sync_*_to_*(), nothingToSend/Recv, isNotCommPartnerCVC and the apps' operators): a "
        "mirror is written 'at source' only if it has local outgoing edges, 'at destination' only if it has local incoming edges, "
        "'any' always; masters are always eligible (their value is the canonical one; the apps' source loops run over "
        "allNodesWithEdgesRange, which contains every master). Likewise a mirror is readable at source/destination iff it has local "
        "out/in edges. With an edge cut (oec, transposed iec, ...) the policy guarantees mirrors have no edges of one direction, "
        "which is exactly why Gluon skips the reduce or broadcast half there; such proxies are never written/checked.",
        "Masters are always checked against the reduced value, also when they have no edge of the read direction (the apps read "
        "their results from the masters).",
        "Protocol the sync structures assume (SyncStructures.h, apps): before a round all proxies of a node agree; min/max: a write "
        "is atomicMin/atomicMax-style and the bitset is marked only on improvement; add: mirrors hold the identity, a write "
        "accumulates a delta, the mirror of an untouched node may keep the identity when only flagged values travel; set: a single "
        "writer per node. Reduce_set while every value travels (no bitset, or metadata mode enforced to onlyData = 'sends "
        "non-updated values') is only determinate if all proxies of a node carry the same value: then the harness writes the same "
        "value at all proxies with writeAny.",
        "Continuation rounds keep (field, write loc, read loc, bitset, async) of the previous round, like an app's loop; proxies not "
        "readable at the read location may be stale there (never checked; min/max contributions are monotone, set replaces).",
        "Asynchronous execution is driven exactly like bfs_push.cpp (DGTerminator loop, writes in 1-3 waves) and only for what has "
        "a schedule-independent final state: min/max/set fields, with bitset, automatic or enforced bitset/offsets/gids metadata "
        "mode. Not covered: async add (the broadcast accumulates into mirrors; the apps' consumption makes the outcome "
        "app-specific), async with metadata enforced to onlyData or without bitset (every call sends every value by design, the "
        "terminator is never quiescent).",
        "Per-mode observations: rounds_mode_* counts rounds under each enforced DataCommMode (get_data_mode returns the enforced mode "
        "for every proxy list with at least one marked proxy); rank0_auto_lists_* classifies rank 0's mirror lists by the mode the library's own "
        "get_data_mode() selects for the marked share in automatic mode; rank0_built_* are Gluon's own MetadataMode statistics of "
        "rank 0 (MORE_DIST_STATS), read from the statistics file at the end of each harness process.",
        "Graphs with fewer nodes than hosts are not generated (C19's subject). Edge-less graphs are, for every policy.",
        "GluonEdgeSubstrate (edge-proxy sync over MiningGraph) is not exercised: no application calls its sync. "
        "GALOIS_SYNC_STRUCTURE_REDUCE_PAIR_WISE_ADD_ARRAY_SINGLE + GALOIS_SYNC_STRUCTURE_VECTOR_BITSET (element-wise vector sync) cannot "
        "be instantiated at all: SyncStructures.h:1896 does not parse ('unsigned uint8_t*') and GluonSubstrate.h:2378-2381 passes "
        "setSubset's template arguments in the wrong order; GALOIS_SYNC_STRUCTURE_REDUCE_PAIR_WISE_AVG_ARRAY is not associative, "
        "so it has no schedule-independent reference with more than one contribution and is not exercised.",
        "Liveness is not decided by wall clock: a sync that never returns ends as 'inconclusive' through the driver watchdog. One "
        "logical liveness verdict exists: in an asynchronous phase a host may send at most 64 x hosts x (proxies + 64) messages (a "
        "call only sends when a bit is set; bits are set by the harness' writes and by strict improvements of a master); beyond "
        "that the key C18:sync:async-resends-without-updates:{auto,enforced-metadata-mode} is recorded and, at 8 x the bound, the "
        "phase is given up (exit code 3). Before fix 02a746b every asynchronous phase under an enforced bitset/offsets/gids mode "
        "ended that way (header-only messages on every call).",
    ],
)
