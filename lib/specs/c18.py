from .common import H

ENV = dict(GALOIS_DEBUG_SKIP=1)


def c18(tier):
    runs = []
    for np in (1, 2, 3, 4):
        runs.append(H("c18_gluon", "dist", 10, "2", env=ENV, mpi=np, timeout_per_case=30, timeout_base=180))
    return runs


SPEC = dict(runs=c18, technique="", level_text="", level_note="", rule="", require={}, assumptions=[])
