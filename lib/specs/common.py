"""Shared helpers for per-property spec modules (lib/specs/cXX.py)."""

TOPOS_QUICK = [None, "4,4,4,4", "3,5"]
TOPOS_THOROUGH = [None, "8,8", "4,4,4,4", "3,5", "1,1,1,1", "smt:2x2x2", "12,12,8"]


def H(harness, cfg, cases, topo=None, **kw):
    """One harness process: target name, build config (plain|asan|tsan|dist|dist-asan), number of cases
    (int or {tier: int}), virtual topology (None = the real machine). Optional: params={k:v} (--param k=v),
    env={}, cpus=N (taskset 0..N-1), mpi=NP, timeout_per_case=s, timeout_base=s, extra_targets=[(cfg,target)]."""
    d = dict(harness=harness, cfg=cfg, cases=cases, topo=topo)
    d.update(kw)
    return d
