"""SPECS[ID] -> spec dict; one module per property (lib/specs/cXX.py exporting SPEC)."""
import importlib
import os
import pkgutil

SPECS = {}
for _m in sorted(pkgutil.iter_modules([os.path.dirname(__file__)])):
    if _m.name.startswith("c") and _m.name[1:].isdigit():
        mod = importlib.import_module("specs." + _m.name)
        SPECS["C" + _m.name[1:]] = mod.SPEC
