from .common import H

PTS = "PerThreadStorage,PerSocketStorage"


def c09(tier):
    q = tier == "quick"
    runs = []

    def add(cfg, cases, topo, **params):
        runs.append(H("c09_alloc", cfg, cases, topo, params=params, timeout_per_case=90, timeout_base=180))

    # serial histories (operations assigned to random pool threads) - ASan + asserts
    add("asan", 120 if q else 600, None, mode="serial")
    add("asan", 60 if q else 400, "4,4,4,4", mode="serial")
    if not q:
        add("asan", 200, "3,5", mode="serial")
        add("asan", 150, "smt:2x2x2", mode="serial")
    # concurrent storms - plain (speed = more interleavings), a few under ASan
    add("plain", 80 if q else 600, None, mode="storm")
    add("plain", 50 if q else 400, "3,5", mode="storm")
    add("asan", 20 if q else 150, "4,4,4,4", mode="storm")
    if not q:
        add("plain", 300, "4,4,4,4", mode="storm")
        add("plain", 200, "12,12,8", mode="storm")
        add("plain", 250, None, mode="mix")
    # per-thread / per-socket storage offsets: processes of their own (the 2 MB per-thread region is a
    # process-wide resource; the harness' availability model needs to be its only user)
    add("asan", 60 if q else 400, "4,4,4,4", mode="serial", comp=PTS)
    add("asan", 40 if q else 300, None, mode="serial", comp=PTS)
    add("plain", 40 if q else 300, "3,5", mode="storm", comp=PTS)
    add("plain", 25 if q else 200, None, mode="storm", comp=PTS, precond=1)
    if not q:
        add("asan", 200, "3,5", mode="serial", comp=PTS)
        add("plain", 300, "smt:2x2x2", mode="serial", comp=PTS)
        add("asan", 60, "4,4,4,4", mode="storm", comp=PTS, precond=1)
    # PerSocketStorage histories that contain moves (isolated: the moved-from object releases the live
    # successor's offset, which would blur every later per-socket case of the same process)
    add("asan", 15 if q else 100, "3,5", mode="serial", comp="PerSocketStorage.move")
    return runs


SPEC = dict(
    runs=c09,
    technique="runtime monitoring + ASan/UBSan: harness-side shadow interval map over every returned block (insert after "
              "allocate, erase before free), block-specific canaries over the requested size re-checked at free and at "
              "quiescent points, alignment checks, exact page extents from an interposed mmap/munmap recorder; generated "
              "alloc/free/clear histories on random pool threads and concurrent storms from on_each",
    level_text="Every allocator named by the property - FixedSizeHeap / FixedSizeAllocator<T>, Pow_2_BlockAllocator, VariableSizeHeap "
               "and BumpHeap<Source> (both allocate overloads), BumpWithMallocHeap / PerIterAllocTy (directly and inside for_each "
               "with per_iter_alloc, incl. the malloc fallback and aborting iterations), PageHeap, pagePoolAlloc/Free/PreAlloc, "
               "PerThreadStorage<T> / PerSocketStorage<T> offsets (creation, destruction, moves, exhausted region with free-list "
               "splitting), largeMalloc*, SerialNumaAllocator, LargeArray (all placements, moves, swaps) and the gstl containers - is "
               "driven with generated histories (sizes around every size-class boundary, operations on random pool threads, frees on "
               "other threads, clear) and with concurrent storms, on 1-4 socket virtual topologies. Every returned block is checked "
               "for: non-null, promised alignment, disjointness from every live block of any component, staying inside the memory "
               "the allocator obtained from the OS, and an intact canary over the requested size until it is freed. Held on the "
               "histories and schedules explored, not on all.",
    level_note="Trusts the harness-side shadow map/canary code (ref/interval_shadow.h), the mmap/munmap interposer as a complete record "
               "of the memory Galois obtains from the OS, and that virtual topologies exercise the same code as real multi-socket "
               "machines. 2 MB *address* alignment of page-pool pages is measured, not demanded (no huge pages in this sandbox). "
               "No TSan run: TSan reports inside Galois are informational by DESIGN 3.4 and a block handed to two threads is "
               "decided exactly by the shadow map, so TSan could not change a C09 verdict. "
               "gstl::UnorderedMap is not exercised: FixedSizeAllocator::allocate(n>1) throws bad_alloc by design, so its bucket "
               "array can never be allocated (outside this property).",
    rule="case = one allocator component x one generated history (serial: alloc/free/clear/check operations assigned to random pool "
         "threads; storm: concurrent random operations from on_each with hand-over of live blocks between threads) on one virtual "
         "topology; non-trivial iff at least 2 blocks were live at the same time and at least one block was retired (free, clear or "
         "destruction) - for for_each cases: >=10 committed iterations; distinct by (component, mode, size/type set or source-chunk "
         "size and API mix, thread-count, buckets of cross-thread frees / address reuses / clears / max live, component specific "
         "features such as free-list path taken, malloc fallback used, placements used, sockets)",
    require={"allocs": 20000, "frees": 20000, "cross_thread_frees": 500, "address_reuses": 500, "clears": 5,
             "canary_checks": 20000, "storm_ops": 20000, "page_extent_checks": 10000,
             "alloc2_calls": 20, "malloc_fallbacks": 5, "pow2_malloc_backups": 1,
             "offsets_from_free_list_exact": 10, "offsets_from_free_list_split": 1, "storage_move_constructs": 5,
             "exhausted_region_cases": 2, "iter_commits": 1000, "iter_aborts": 10,
             "large_interleaved": 3, "large_blocked": 3, "large_local": 3, "large_floating": 3, "large_specified": 3,
             "largearray_interleaved": 1, "largearray_blocked": 1, "largearray_local": 1, "largearray_floating": 1,
             "largearray_specified": 1, "serialnuma_direct": 3, "gstl_container_ops": 500, "pages_handed_out": 50},
    assumptions=["every page Galois obtains from the OS goes through the interposed mmap (anonymous, length a multiple of 2 MB)",
                 "x86-64 / glibc malloc alignment (16 B) for the documented malloc fallbacks",
                 "virtual topologies come from the GALOIS_VERIF_TOPO hook; threads are not bound",
                 "allocOffset()/BumpHeap::allocate(size) abort by design when a request cannot be satisfied; the harness "
                 "never issues such requests (availability model / size limits), so out-of-memory behaviour is not covered"],
)
