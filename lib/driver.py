"""Driver for the runtime-monitoring checks (python3 stdlib only).

check <ID> --tier quick|thorough [--seed N] [--replay FILE]

For one property it (1) incrementally rebuilds the harness targets it needs
from /repo's current working tree (one ninja build tree per sanitizer config,
guarded by flock), (2) runs each harness process described in lib/specs.py
under a watchdog, restarting after crashes, (3) routes every failure key
through known_findings.json, (4) writes evidence/<ID>.json and replay files.

Exit codes: 0 held on everything explored; 1 unlisted violation;
2 inconclusive / harness failure.
"""
import fcntl
import hashlib
import json
import os
import re
import shutil
import signal
import subprocess
import sys
import tempfile
import time

VERIF = os.path.dirname(os.path.dirname(os.path.abspath(__file__)))
REPO = os.environ.get("VERIF_REPO", "/repo")
BUILD_ROOT = os.environ.get("VERIF_BUILD_ROOT", os.path.join(VERIF, "_build"))
# evidence/replay go to /verif unless a scratch repo is being checked (mutation trials)
OUT_ROOT = VERIF if REPO == "/repo" and "VERIF_BUILD_ROOT" not in os.environ else BUILD_ROOT
HARNESS_SRC = os.path.join(VERIF, "harness")

CONFIGS = {
    # name: (build type, CMAKE_CXX_FLAGS, per-build-type flag override, extra cmake args)
    "plain": dict(bt="RelWithDebInfo", flags="", btflags="-O2 -g -DNDEBUG", extra=[]),
    "asan": dict(bt="Debug",
                 flags="-fsanitize=address,undefined -fno-sanitize-recover=all -fno-omit-frame-pointer",
                 btflags="-O1 -g", extra=[]),
    "tsan": dict(bt="RelWithDebInfo", flags="-fsanitize=thread", btflags="-O1 -g -DNDEBUG", extra=[]),
    "dist": dict(bt="RelWithDebInfo", flags="", btflags="-O2 -g -DNDEBUG", extra=["-DVERIF_DIST=ON"]),
    "dist-asan": dict(bt="Debug",
                      flags="-fsanitize=address,undefined -fno-sanitize-recover=all -fno-omit-frame-pointer",
                      btflags="-O1 -g", extra=["-DVERIF_DIST=ON"]),
}

SAN_ENV = {
    "ASAN_OPTIONS": "abort_on_error=1:detect_leaks=0:handle_abort=1:detect_stack_use_after_return=0:allocator_may_return_null=1",
    "UBSAN_OPTIONS": "print_stacktrace=1:halt_on_error=1",
    "TSAN_OPTIONS": "halt_on_error=0:exitcode=0:report_signal_unsafe=0:history_size=4:second_deadlock_stack=0",
}


def log(msg):
    print(msg, flush=True)


# ---------------------------------------------------------------- build
def build_dir(cfg):
    return os.path.join(BUILD_ROOT, cfg)


def ensure_built(cfg, targets):
    """Configure (if needed) and build `targets` in config `cfg`. Returns (ok, output)."""
    bdir = build_dir(cfg)
    os.makedirs(bdir, exist_ok=True)
    c = CONFIGS[cfg]
    lockf = open(os.path.join(bdir, ".lock"), "w")
    fcntl.flock(lockf, fcntl.LOCK_EX)
    try:
        out = ""
        if not os.path.exists(os.path.join(bdir, "build.ninja")):
            cmd = ["cmake", "-G", "Ninja", "-S", HARNESS_SRC, "-B", bdir,
                   "-DCMAKE_BUILD_TYPE=" + c["bt"],
                   "-DCMAKE_CXX_FLAGS=" + c["flags"],
                   "-DCMAKE_C_FLAGS=" + c["flags"],
                   "-DCMAKE_CXX_FLAGS_" + c["bt"].upper() + "=" + c["btflags"],
                   "-DCMAKE_C_FLAGS_" + c["bt"].upper() + "=" + c["btflags"],
                   "-DVERIF_REPO=" + REPO] + c["extra"]
            p = subprocess.run(cmd, stdout=subprocess.PIPE, stderr=subprocess.STDOUT, text=True)
            out += p.stdout
            if p.returncode != 0:
                return False, out
        p = subprocess.run(["ninja", "-C", bdir, "-j", str(os.cpu_count() or 8)] + list(targets),
                           stdout=subprocess.PIPE, stderr=subprocess.STDOUT, text=True)
        out += p.stdout
        return p.returncode == 0, out
    finally:
        fcntl.flock(lockf, fcntl.LOCK_UN)
        lockf.close()


# ---------------------------------------------------------------- known findings
def load_known():
    path = os.path.join(VERIF, "known_findings.json")
    out = []
    if os.path.exists(path):
        out += json.load(open(path)).get("findings", [])
    # development aid only (harness authors triaging before the committed file is updated)
    extra = os.environ.get("VERIF_KNOWN")
    if extra and os.path.exists(extra):
        out += json.load(open(extra)).get("findings", [])
    return out


def known_open(known, prop, key):
    """A finding is identified by its key (which starts with the id of the property it violates). A check
    for another property that runs the same harness and observes that listed violation reports it as the
    known finding of the property it belongs to."""
    for f in known:
        if f.get("status") == "open" and f.get("key") == key and key.startswith(f.get("property", "?") + ":"):
            return f
    return None


# ---------------------------------------------------------------- running one harness process
CRASH_PATTERNS = [
    # an assertion in an ASan build ends as "AddressSanitizer: ABRT": name the assertion, not the signal
    (re.compile(r"Assertion `(.*)' failed"), "assert"),
    (re.compile(r"ERROR: \S+: (per-thread storage out of memory)"), "die"),
    (re.compile(r"ERROR: AddressSanitizer: ([a-zA-Z0-9_-]+)"), "asan"),
    (re.compile(r"runtime error: (.*)"), "ubsan"),
    (re.compile(r"terminate called after throwing an instance of '([^']+)'"), "exception"),
]


def frames_from_stderr(text, maxn=3):
    """first few frames inside /repo of a sanitizer stack (function names only)"""
    fr = []
    for m in re.finditer(r"#\d+ 0x[0-9a-f]+ in (\S+) (/repo/\S+?)(?::\d+)", text):
        fn = m.group(1)
        path = m.group(2)
        fr.append(os.path.basename(path) + ":" + re.sub(r"<.*", "", fn))
        if len(fr) >= maxn:
            break
    return fr


def classify_crash(rc, stderr_text):
    for rx, kind in CRASH_PATTERNS:
        m = rx.search(stderr_text)
        if m:
            what = m.group(1).strip()
            what = re.sub(r"0x[0-9a-f]+", "ADDR", what)
            what = re.sub(r"\d+", "N", what)[:80]
            fr = frames_from_stderr(stderr_text, 1)
            return kind, what, fr
    if rc < 0:
        try:
            return "signal", signal.Signals(-rc).name, []
        except ValueError:
            return "signal", str(-rc), []
    return "exit", str(rc), []


class RunResult:
    def __init__(self):
        self.events = []      # all parsed events
        self.violations = []  # dicts: key, case, params, detail, run
        self.inconclusive = []  # strings
        self.wall = 0.0


def run_harness(run, tier, seed, res, only_case=None):
    """run: dict from specs. Runs the harness process(es) covering all cases."""
    cfg = run["cfg"]
    exe = os.path.join(build_dir(cfg), "bin", run["harness"])
    ncases = run["cases"][tier] if isinstance(run["cases"], dict) else run["cases"]
    start = 0
    if only_case is not None:
        start = only_case
    per_case_to = run.get("timeout_per_case", 60)
    base_to = run.get("timeout_base", 120)
    restarts = 0
    restart_keys = {}   # violation key -> number of process restarts it caused in this run
    retried_timeout = set()
    t_begin = time.time()
    while start < ncases:
        outf = tempfile.NamedTemporaryFile(prefix="verif-out-", suffix=".jsonl", delete=False, dir="/var/tmp")
        outf.close()
        errf = tempfile.NamedTemporaryFile(prefix="verif-err-", suffix=".log", delete=False, dir="/var/tmp")
        errf.close()
        cmd = []
        if run.get("cpus"):
            cmd += ["taskset", "-c", "0-%d" % (run["cpus"] - 1)]
        if run.get("mpi"):
            cmd += ["mpirun", "--allow-run-as-root", "--oversubscribe", "-np", str(run["mpi"])]
        cmd += [exe, "--seed", str(seed), "--tier", tier, "--out", outf.name]
        # ThreadSanitizer keeps a list of racy addresses that only grows; after some dozens of cases every racy access pays a
        # scan of it. A fresh process every 25 cases keeps that bounded.
        chunk = run.get("chunk", 25 if cfg == "tsan" else 0)
        upto = min(ncases, start + chunk) if chunk else ncases
        if only_case is not None:
            cmd += ["--only", str(only_case)]
        else:
            cmd += ["--cases", str(upto), "--start", str(start)]
        for k, v in sorted(run.get("params", {}).items()):
            cmd += ["--param", "%s=%s" % (k, v)]
        env = dict(os.environ)
        env.update(SAN_ENV)
        env["GALOIS_DO_NOT_BIND_THREADS"] = "1"
        if run.get("topo"):
            env["GALOIS_VERIF_TOPO"] = run["topo"]
        else:
            env.pop("GALOIS_VERIF_TOPO", None)
        env.update({k: str(v) for k, v in run.get("env", {}).items()})
        remaining = (1 if only_case is not None else upto - start)
        timeout = base_to + per_case_to * remaining
        timed_out = False
        with open(errf.name, "w") as ef:
            p = subprocess.Popen(cmd, stdout=ef, stderr=subprocess.STDOUT, env=env,
                                 preexec_fn=os.setsid)
            # two wall-clock watchdogs, both only ever produce "inconclusive": the whole run, and a stall watchdog on the
            # event stream (a case that neither ends nor is convicted by the in-process logical monitor)
            stall_to = max(15 * per_case_to, 600) if cfg != "tsan" else max(5 * per_case_to, 300)
            t0 = time.time()
            last_size, last_growth = -1, t0
            rc = None
            while True:
                try:
                    rc = p.wait(timeout=2)
                    break
                except subprocess.TimeoutExpired:
                    pass
                now = time.time()
                try:
                    sz = os.path.getsize(outf.name)
                except OSError:
                    sz = last_size
                if sz != last_size:
                    last_size, last_growth = sz, now
                if now - t0 > timeout or now - last_growth > stall_to:
                    timed_out = True
                    try:
                        os.killpg(p.pid, signal.SIGKILL)
                    except ProcessLookupError:
                        pass
                    rc = p.wait()
                    break
        events = []
        for line in open(outf.name, errors="replace"):
            line = line.strip()
            if not line:
                continue
            try:
                events.append(json.loads(line))
            except json.JSONDecodeError:
                pass
        stderr_text = open(errf.name, errors="replace").read()
        os.unlink(outf.name)
        os.unlink(errf.name)
        inflight = None
        last_done = start - 1
        done_seen = False
        for e in events:
            e["_run"] = run_label(run)
            if e.get("ev") == "begin":
                inflight = e
            elif e.get("ev") == "end":
                inflight = None
                last_done = max(last_done, e["case"])
            elif e.get("ev") == "violation":
                res.violations.append(dict(key=e["key"], case=e.get("case"), params=e.get("params"),
                                           detail=e.get("detail"), run=run, seed=seed))
            elif e.get("ev") == "done":
                done_seen = True
        res.events.extend(events)
        if timed_out:
            c = inflight["case"] if inflight else start
            if (c in retried_timeout) or only_case is not None and restarts > 0:
                res.inconclusive.append("%s: wall-clock watchdog fired twice on case %s" % (run_label(run), c))
                return
            retried_timeout.add(c)
            log("  watchdog fired on %s case %s; re-running it once" % (run_label(run), c))
            restarts += 1
            if only_case is not None:
                continue
            # rerun that single case; a second timeout is inconclusive
            sub = RunResult()
            run_harness(run, tier, seed, sub, only_case=c)
            res.events.extend(sub.events)
            res.violations.extend(sub.violations)
            res.inconclusive.extend(sub.inconclusive)
            start = c + 1
            continue
        if rc == 0 and done_seen:
            if only_case is None and upto < ncases:
                start = upto
                continue
            break
        if rc == 3:
            # HANG reported by the in-process monitor (violation already recorded)
            c = inflight["case"] if inflight else last_done + 1
            if only_case is not None:
                break
            start = c + 1
            restarts += 1
            hk = next((e.get("key") for e in reversed(events) if e.get("ev") == "violation"), "?")
            restart_keys[hk] = restart_keys.get(hk, 0) + 1
            # "re-run before reporting a hang": the case is repeated alone (same seed, same injected decisions) up to three
            # times; a hang that shows again stands. One that does not is kept but marked unconfirmed - main() reports
            # unconfirmed hangs only when the same key stalled in two different cases of this check.
            if restart_keys[hk] <= 2:
                confirmed = False
                for _ in range(3):
                    sub = RunResult()
                    run_harness(run, tier, seed, sub, only_case=c)
                    if any(v["key"] == hk for v in sub.violations):
                        confirmed = True
                        break
                if not confirmed:
                    for v in res.violations:
                        if v["key"] == hk and v.get("case") == c and v.get("run") is run:
                            v["unconfirmed_hang"] = True
                    log("  %s case %s: %s not reproduced in 3 re-runs of the case" % (run_label(run), c, hk))
            if restart_keys[hk] >= 6:
                # the same fatal finding six times in one run: the verdict cannot change any more and every
                # further occurrence costs a hang window plus a process restart - stop this run here
                log("  %s: key %s ended the process %d times; skipping the remaining cases of this run" %
                    (run_label(run), hk, restart_keys[hk]))
                break
            continue
        # crash
        if inflight is None and rc != 0:
            # died outside any case (startup/teardown)
            kind, what, fr = classify_crash(rc, stderr_text)
            if last_done >= ncases - 1 or done_seen:
                # crash at teardown after all cases: report as violation tied to harness teardown
                key = "%s:%s:teardown-%s:%s" % (run["prop"], run["harness"], kind, what)
                res.violations.append(dict(key=key, case=None, params=None,
                                           detail={"stderr_tail": stderr_text[-3000:]}, run=run, seed=seed))
                break
            res.inconclusive.append("%s: harness died outside a case (rc=%s): %s" %
                                    (run_label(run), rc, stderr_text[-1500:]))
            return
        c = inflight["case"]
        kind, what, fr = classify_crash(rc, stderr_text)
        comp = inflight.get("params", {}).get("component", run["harness"])
        key = "%s:%s:%s:%s" % (run["prop"], comp, kind, what)
        if fr:
            key += "@" + fr[0]
        res.violations.append(dict(key=key, case=c, params=inflight.get("params"),
                                   detail={"rc": rc, "stderr_tail": stderr_text[-4000:]}, run=run, seed=seed))
        if only_case is not None:
            break
        start = c + 1
        restarts += 1
        restart_keys[key] = restart_keys.get(key, 0) + 1
        if restart_keys[key] >= 6:
            log("  %s: key %s ended the process %d times; skipping the remaining cases of this run" %
                (run_label(run), key, restart_keys[key]))
            break
        if restarts > 200:
            res.inconclusive.append("%s: too many restarts" % run_label(run))
            return
    res.wall += time.time() - t_begin


class PyLog:
    """Event sink for script-driven runs (spec run dicts with a 'py' callable):
    py(log, tier, seed) calls log.begin/end/violation exactly like a C++ harness."""

    def __init__(self, run, res, seed):
        self.run, self.res, self.seed = run, res, seed
        self.label = run_label(run)
        self.cur = None

    def begin(self, case, params):
        self.cur = (case, params)
        self.res.events.append({"ev": "begin", "case": case, "params": params, "_run": self.label})

    def end(self, case, sig, nontrivial, obs):
        self.res.events.append({"ev": "end", "case": case, "sig": sig, "nontrivial": bool(nontrivial),
                                "obs": obs, "_run": self.label})
        self.cur = None

    def violation(self, key, detail):
        self.res.violations.append(dict(key=key, case=self.cur[0] if self.cur else None,
                                        params=self.cur[1] if self.cur else None,
                                        detail=detail, run=self.run, seed=self.seed))

    def inconclusive(self, why):
        self.res.inconclusive.append("%s: %s" % (self.label, why))


def find_exe(cfg, name):
    """path of an executable built in config cfg: harness bin/ first, then the repo's own targets"""
    p = os.path.join(build_dir(cfg), "bin", name)
    if os.path.exists(p):
        return p
    for root, dirs, files in os.walk(os.path.join(build_dir(cfg), "repo")):
        if name in files and os.access(os.path.join(root, name), os.X_OK):
            return os.path.join(root, name)
    return None


def san_env(extra=None):
    env = dict(os.environ)
    env.update(SAN_ENV)
    env["GALOIS_DO_NOT_BIND_THREADS"] = "1"
    env.pop("GALOIS_VERIF_TOPO", None)
    if extra:
        env.update({k: str(v) for k, v in extra.items()})
    return env


def run_label(run):
    if not run.get("harness"):
        return "py:" + run.get("name", "script")
    s = "%s[%s" % (run["harness"], run["cfg"])
    if run.get("topo"):
        s += " topo=" + run["topo"]
    if run.get("cpus"):
        s += " cpus=%d" % run["cpus"]
    if run.get("mpi"):
        s += " np=%d" % run["mpi"]
    for k, v in sorted(run.get("params", {}).items()):
        s += " %s=%s" % (k, v)
    return s + "]"


# ---------------------------------------------------------------- evidence
def summarize(prop, tier, seed, res, spec, wall, nviol_unlisted, known_hits, extra_cov=None):
    ends = [e for e in res.events if e.get("ev") == "end"]
    begins = {(e["_run"], e["case"]): e for e in res.events if e.get("ev") == "begin"}
    sigs = set()
    for e in ends:
        if e.get("nontrivial"):
            sigs.add(e.get("sig", ""))
    totals = {}
    for e in ends:
        for k, v in (e.get("obs") or {}).items():
            if isinstance(v, bool):
                v = int(v)
            if isinstance(v, (int, float)):
                totals[k] = totals.get(k, 0) + v
    points = {}
    for e in res.events:
        if e.get("ev") == "done":
            for k, v in (e.get("points") or {}).items():
                a = points.setdefault(k, [0, 0])
                a[0] += v[0]
                a[1] += v[1]
    samples = []
    step = max(1, len(ends) // 4)
    for e in ends[::step][:5]:
        b = begins.get((e["_run"], e["case"]), {})
        samples.append({"run": e["_run"], "case": e["case"], "params": b.get("params"),
                        "sig": e.get("sig"), "obs": e.get("obs")})
    per_run = {}
    for e in ends:
        per_run[e["_run"]] = per_run.get(e["_run"], 0) + 1
    cov = {
        "evaluations": len(ends),
        "distinct_nontrivial": len(sigs),
        "rule": spec.get("rule", ""),
        "samples": samples,
        "observed_totals": totals,
        "failpoints_hit_injected": points,
        "cases_per_run": per_run,
        "known_findings_reproduced": known_hits,
        "inconclusive": res.inconclusive,
        "unconfirmed_hangs": [{"key": v["key"], "case": v.get("case"), "run": run_label(v["run"])}
                              for v in getattr(res, "unconfirmed_hangs", [])],
    }
    if extra_cov:
        cov.update(extra_cov)
    ev = {
        "property_id": prop,
        "tier": tier,
        "seed": seed,
        "level": "exploration",
        "coverage": cov,
        "assumptions": spec.get("assumptions", []),
        "wall_s": round(wall, 2),
        "violations": nviol_unlisted,
    }
    os.makedirs(os.path.join(OUT_ROOT, "evidence"), exist_ok=True)
    tmp = os.path.join(OUT_ROOT, "evidence", prop + ".json.tmp")
    with open(tmp, "w") as f:
        json.dump(ev, f, indent=1, sort_keys=True)
    os.replace(tmp, os.path.join(OUT_ROOT, "evidence", prop + ".json"))
    return ev


def write_replay(prop, v, idx):
    d = os.path.join(OUT_ROOT, "replay")
    os.makedirs(d, exist_ok=True)
    h = hashlib.sha1(v["key"].encode()).hexdigest()[:8]
    path = os.path.join(d, "%s-%s-%d.json" % (prop, h, idx))
    run = {k: val for k, val in v["run"].items() if k != "py"}
    with open(path, "w") as f:
        json.dump({"property": prop, "key": v["key"], "run": run, "case": v["case"],
                   "seed": v["seed"], "params": v["params"], "detail": v["detail"]}, f, indent=1)
    return path


# ---------------------------------------------------------------- main
def main(argv):
    import argparse
    sys.path.insert(0, os.path.join(VERIF, "lib"))
    import specs
    ap = argparse.ArgumentParser()
    ap.add_argument("prop")
    ap.add_argument("--tier", default=os.environ.get("VERIF_TIER", "quick"), choices=["quick", "thorough"])
    ap.add_argument("--seed", type=int, default=int(os.environ.get("VERIF_SEED", "1")))
    ap.add_argument("--replay")
    ap.add_argument("--replay-tries", type=int, default=5)
    ap.add_argument("--only-run", help="substring filter on run label (debugging)")
    ap.add_argument("--no-build", action="store_true")
    a = ap.parse_args(argv)
    prop = a.prop
    t0 = time.time()

    if a.replay:
        return replay(a, specs)

    spec = specs.SPECS[prop]
    runs = [dict(r, prop=prop) for r in spec["runs"](a.tier)]
    if a.only_run:
        runs = [r for r in runs if a.only_run in run_label(r)]

    # build
    if not a.no_build:
        need = {}
        for r in runs:
            if r.get("harness"):
                need.setdefault(r["cfg"], set()).add(r["harness"])
            for cfg, tg in r.get("extra_targets", []):
                need.setdefault(cfg, set()).add(tg)
        for cfg, targets in sorted(need.items()):
            tb = time.time()
            ok, out = ensure_built(cfg, sorted(targets))
            log("build[%s] %s: %s (%.0fs)" % (cfg, ",".join(sorted(targets)), "ok" if ok else "FAILED", time.time() - tb))
            if not ok:
                log(out[-6000:])
                log("INCONCLUSIVE property=%s build failed in config %s" % (prop, cfg))
                summarize_inconclusive(prop, a, spec, "build failed in " + cfg, t0)
                return 2

    res = RunResult()
    for r in runs:
        tr = time.time()
        nv = len(res.violations)
        if r.get("py"):
            r["py"](PyLog(r, res, a.seed), a.tier, a.seed)
        else:
            run_harness(r, a.tier, a.seed, res)
        log("run %s: %d events, %d new violation(s), %.0fs" %
            (run_label(r), len(res.events), len(res.violations) - nv, time.time() - tr))

    # unconfirmed hangs: a stall that could not be reproduced by re-running its case counts only if the same key stalled in
    # at least two different cases; a single one makes that case inconclusive, nothing more
    unc = {}
    for v in res.violations:
        if v.get("unconfirmed_hang"):
            unc.setdefault(v["key"], set()).add((run_label(v["run"]), v.get("case")))
    dropped = {k for k, cs in unc.items() if len(cs) < 2}
    if dropped:
        for v in res.violations:
            if v.get("unconfirmed_hang") and v["key"] in dropped:
                log("UNCONFIRMED-HANG key=%s case=%s run=%s: not reproduced in 3 re-runs and seen in one case only; "
                    "that case is inconclusive, not counted as a violation" % (v["key"], v.get("case"), run_label(v["run"])))
        res.unconfirmed_hangs = [v for v in res.violations if v.get("unconfirmed_hang") and v["key"] in dropped]
        res.violations = [v for v in res.violations if not (v.get("unconfirmed_hang") and v["key"] in dropped)]
    # route violations through known findings
    known = load_known()
    unlisted = []
    known_hits = {}
    for v in res.violations:
        k = known_open(known, prop, v["key"])
        if k:
            known_hits[v["key"]] = known_hits.get(v["key"], 0) + 1
        else:
            unlisted.append(v)
    for key, n in sorted(known_hits.items()):
        k = known_open(known, prop, key)
        log("KNOWN-FINDING: property=%s %s [key=%s, reproduced %d time(s)]" % (k.get("property", prop), k.get("what", ""), key, n))
    seen_keys = set()
    idx = 0
    for v in unlisted:
        if v["key"] in seen_keys:
            continue
        seen_keys.add(v["key"])
        path = write_replay(prop, v, idx)
        idx += 1
        log("VIOLATION property=%s replay=%s key=%s" % (prop, path, v["key"]))
        det = json.dumps(v.get("detail"))[:1500]
        log("  case=%s run=%s detail=%s" % (v.get("case"), run_label(v["run"]), det))

    # observation thresholds
    ev = summarize(prop, a.tier, a.seed, res, spec, time.time() - t0, len(seen_keys), known_hits)
    tot = ev["coverage"]["observed_totals"]
    unmet = []
    for k, mn in spec.get("require", {}).items():
        if tot.get(k, 0) < mn:
            unmet.append("%s=%s<%s" % (k, tot.get(k, 0), mn))
    log("evidence: evaluations=%d distinct_nontrivial=%d wall=%.0fs totals=%s" %
        (ev["coverage"]["evaluations"], ev["coverage"]["distinct_nontrivial"], ev["wall_s"],
         json.dumps(tot)[:600]))
    if seen_keys:
        return 1
    if res.inconclusive:
        # a case whose only trouble is a wall-clock limit (loaded machine) is inconclusive for that case; it is listed in
        # the evidence and does not turn the whole run inconclusive unless there are more than a few of them
        def case_level(s):
            return "no result within" in s or "wall-clock watchdog fired twice" in s
        hard = [s for s in res.inconclusive if not case_level(s)]
        soft = [s for s in res.inconclusive if case_level(s)]
        limit = max(3, ev["coverage"]["evaluations"] // 100)
        if hard or len(soft) > limit:
            for s in res.inconclusive:
                log("INCONCLUSIVE: " + s[:2000])
            return 2
        for s in soft:
            log("INCONCLUSIVE-CASE (wall-clock limit, listed in the evidence, not a verdict): " + s[:600])
    if unmet and not a.only_run:
        log("INCONCLUSIVE: observation thresholds not met: " + ", ".join(unmet))
        return 2
    if ev["coverage"]["distinct_nontrivial"] < 2 and not a.only_run:
        log("INCONCLUSIVE: fewer than 2 distinct non-trivial cases observed")
        return 2
    log("HELD property=%s tier=%s on everything explored" % (prop, a.tier))
    return 0


def summarize_inconclusive(prop, a, spec, why, t0):
    res = RunResult()
    res.inconclusive.append(why)
    summarize(prop, a.tier, a.seed, res, spec, time.time() - t0, 0, {})


def replay(a, specs):
    r = json.load(open(a.replay))
    prop = r["property"]
    run = dict(r["run"], prop=prop)
    if not run.get("harness"):
        log("replay of script-driven cases: re-run the check with VERIF_SEED=%s" % r["seed"])
        return 2
    ok, out = ensure_built(run["cfg"], [run["harness"]])
    if not ok:
        log(out[-3000:])
        return 2
    hits = 0
    for i in range(a.replay_tries):
        res = RunResult()
        run_harness(run, "quick", r["seed"], res, only_case=r["case"] if r["case"] is not None else 0)
        if any(v["key"] == r["key"] for v in res.violations):
            hits += 1
    log("replay %s: reproduced %d/%d (the OS schedule is not reproducible; workload and injected decisions are)" %
        (r["key"], hits, a.replay_tries))
    if hits:
        log("VIOLATION property=%s replay=%s" % (prop, a.replay))
        return 1
    return 0


if __name__ == "__main__":
    sys.exit(main(sys.argv[1:]))
