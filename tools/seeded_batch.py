#!/usr/bin/env python3
"""tools/seeded_batch.py name:CHECK[:extra check args] ...  -- for each seeded change under /verif/seeded/<name>:
(1) re-verify it independently (tools/verify_seeded.sh: clean tree demo passes, patched tree baseline 68/68 + demo fails)
unless seeded/<name>/verify.json exists; (2) run bin/check CHECK --tier quick against a scratch copy of /repo with the
patch applied (tools/mutant.sh); (3) record everything in seeded/<name>/meta.json."""
import json, os, re, subprocess, sys, time
V = "/verif"
for spec in sys.argv[1:]:
    parts = spec.split(":")
    name, check = parts[0], parts[1]
    extra = parts[2].split() if len(parts) > 2 else []
    d = os.path.join(V, "seeded", name)
    meta_p = os.path.join(d, "meta.json")
    meta = json.load(open(meta_p)) if os.path.exists(meta_p) else {"name": name}
    # (1) verification
    if "verify" not in meta:
        demo = os.path.join(d, "demo.cpp")
        if os.path.exists(os.path.join(d, "demo.sh")):
            meta["verify"] = {"note": "demo is a script (needs the synthetic-topology knob); verified separately, see verify_manual"}
        elif os.path.exists(demo):
            t0 = time.time()
            out = subprocess.run([os.path.join(V, "tools/verify_seeded.sh"), name, os.path.join(d, "patch.diff"), demo, "4"],
                                 stdout=subprocess.PIPE, stderr=subprocess.STDOUT, text=True).stdout
            m = re.search(r"SEEDED-VERIFY (\{.*\})", out)
            try:
                meta["verify"] = json.loads(m.group(1)) if m else {"error": out[-500:]}
            except Exception:
                meta["verify"] = {"raw": m.group(1)[:600] if m else out[-500:]}
            meta["verify"]["wall_s"] = round(time.time() - t0)
        json.dump(meta, open(meta_p, "w"), indent=1)
    # (2) the check against the patched tree
    t0 = time.time()
    p = subprocess.run([os.path.join(V, "tools/mutant.sh"), name + "-" + check, os.path.join(d, "patch.diff"), check, "--tier", "quick"] + extra,
                       stdout=subprocess.PIPE, stderr=subprocess.STDOUT, text=True)
    keys = sorted(set(re.findall(r"^VIOLATION property=\S+ replay=\S+ key=(.*)$", p.stdout, re.M)))
    verdict = "HELD" if re.search(r"^HELD ", p.stdout, re.M) else ("INCONCLUSIVE" if "INCONCLUSIVE" in p.stdout else "?")
    runs = re.findall(r"^run (.*)$", p.stdout, re.M)
    res = {"check": check, "args": ["--tier", "quick"] + extra, "exit": p.returncode, "caught": p.returncode == 1 and bool(keys),
           "violation_keys": keys[:12], "verdict_line": verdict if not keys else "VIOLATION", "runs": runs, "wall_s": round(time.time() - t0)}
    meta.setdefault("checks", [])
    meta["checks"] = [c for c in meta["checks"] if not (c["check"] == check and c["args"] == res["args"])] + [res]
    json.dump(meta, open(meta_p, "w"), indent=1)
    print("%s vs %s: exit=%d caught=%s keys=%s (%.0fs)" % (name, check, p.returncode, res["caught"], keys[:3], time.time() - t0), flush=True)
