#!/usr/bin/env python3
"""insline.py FILE (before|after) REGEX [--nth N|--all] TEXT : insert TEXT (indent copied from matched line) relative to lines matching REGEX."""
import sys,re
path,where,rx=sys.argv[1:4]
args=sys.argv[4:]
nth=None; all_=False
if args[0]=='--nth': nth=int(args[1]); args=args[2:]
elif args[0]=='--all': all_=True; args=args[1:]
text=args[0]
lines=open(path).read().split('\n')
idx=[i for i,l in enumerate(lines) if re.search(rx,l)]
if not idx: print("NO MATCH",path,rx); sys.exit(1)
if not all_:
    if nth is None:
        if len(idx)!=1: print("AMBIGUOUS",path,rx,[i+1 for i in idx]); sys.exit(1)
        idx=[idx[0]]
    else: idx=[idx[nth]]
for i in reversed(idx):
    ind=re.match(r'\s*',lines[i]).group(0)
    if text.startswith('#'): ind=''
    new=ind+text
    if where=='before': lines.insert(i,new)
    else: lines.insert(i+1,new)
open(path,'w').write('\n'.join(lines))
print("ok",path,[i+1 for i in idx])
