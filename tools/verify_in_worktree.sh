#!/bin/bash
# tools/verify_in_worktree.sh <worktree> <seeded-name> [extra g++ flags]
# Coordinator's re-verification of a seeded change inside an existing scratch worktree of /repo (outside /repo and /verif)
# whose _build was configured from that worktree: clean tree -> demonstration passes; patch applied -> baseline 68/68 and
# demonstration fails. Prints one RESULT line. Leaves the worktree's sources clean.
set -u
WT=$1; name=$2; shift 2; extra="$@"
D=/verif/seeded/$name; SRC="libgalois lonestar libdist libgluon libcusp libsupport tools"
cd $WT || exit 2
grep -q "CMAKE_HOME_DIRECTORY:INTERNAL=$WT\$" _build/CMakeCache.txt || { echo "RESULT $name: _build is not configured for $WT"; exit 2; }
git status --short -- $SRC | grep -v '^??' && { echo "RESULT $name: tree not clean"; exit 2; }
T=/var/tmp/viw-$name
bd() { g++ -std=c++17 -O2 -g $extra -I$WT/libgalois/include -I$WT/_build/libgalois/include $D/demo.cpp $WT/_build/libgalois/libgalois_shmem.a -lnuma -lpthread -o $T.bin 2>$T.build.log; }
rn() { f=0; for i in 1 2 3 4; do GALOIS_DO_NOT_BIND_THREADS=1 timeout 300 $T.bin > $T.out 2>&1 || f=$((f+1)); done; echo $f; }
nice ninja -C _build galois_shmem > /dev/null 2>&1
if [ -f $D/demo.sh ]; then bash $D/demo.sh $WT > $T.out 2>&1; c=$?
else bd || { echo "RESULT $name: demo build failed (clean)"; head -5 $T.build.log; exit 2; }; c=$(rn); fi
git apply $D/patch.diff || { echo "RESULT $name: patch does not apply"; exit 2; }
base=$(/root/mutkit/baseline.sh $WT 2>&1 | grep -E "BASELINE|NOT PASSED|FAILED" | tr '\n' ' ')
if [ -f $D/demo.sh ]; then bash $D/demo.sh $WT > $T.out 2>&1; p=$?
else bd || { echo "RESULT $name: demo build failed (patched)"; git checkout -- $SRC; exit 2; }; p=$(rn); fi
last=$(tail -2 $T.out | tr '\n' ' ' | tr -d '"\\' | cut -c1-250)
git checkout -- $SRC
nice ninja -C _build galois_shmem > /dev/null 2>&1
echo "RESULT $name clean=$c patched=$p base=[$base] last=[$last]"
rm -f $T.*
