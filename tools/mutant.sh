#!/bin/bash
# tools/mutant.sh <name> <patch-file|-> <check args...>
# Applies a patch to a scratch copy of /repo and runs bin/check against it (own build root), then cleans up.
# With KEEP=1 the scratch copy and build are kept (for repeated runs): /var/tmp/mut-<name>/
set -u
name=$1; patch=$2; shift 2
[ "$patch" != "-" ] && patch=$(readlink -f "$patch")
D=/var/tmp/mut-$name
if [ ! -d $D/repo ]; then
  mkdir -p $D
  rsync -a --exclude _build --exclude .git /repo/ $D/repo/
  if [ "$patch" != "-" ]; then
    (cd $D/repo && patch -p1 --no-backup-if-mismatch < $patch) || { echo "PATCH FAILED"; rm -rf $D; exit 2; }
  fi
fi
VERIF_REPO=$D/repo VERIF_BUILD_ROOT=$D/build /verif/bin/check "$@"
rc=$?
[ "${KEEP:-0}" = "1" ] || rm -rf $D
exit $rc
