#!/bin/bash
# tools/verify_seeded_script.sh <name>  -- like verify_seeded.sh for changes whose demonstration is a script
# (seeded/<name>/demo.sh <galois-source-dir>, exit 0 = pass). Prints a SEEDED-VERIFY json line.
set -u
name=$1; D=/verif/seeded/$name; WT=/tmp/vs-$name
git -C /repo worktree remove --force $WT 2>/dev/null
git -C /repo worktree add -q $WT HEAD || exit 2
/root/mutkit/baseline.sh $WT > /dev/null 2>&1
bash $D/demo.sh $WT > $WT.clean.out 2>&1; clean_rc=$?
(cd $WT && git apply $D/patch.diff) || { echo "patch does not apply"; git -C /repo worktree remove --force $WT; exit 2; }
base=$(/root/mutkit/baseline.sh $WT 2>&1 | grep -E "BASELINE|NOT PASSED|FAILED" | tr '\n' ' ')
bash $D/demo.sh $WT > $WT.patched.out 2>&1; patched_rc=$?
echo "SEEDED-VERIFY {\"name\":\"$name\",\"clean_tree_demo_exit\":$clean_rc,\"patched_tree_demo_exit\":$patched_rc,\"baseline_with_patch\":\"$base\",\"patched_last_output\":\"$(tail -2 $WT.patched.out | tr '\n' ' ' | tr -d '\"\\' | cut -c1-300)\"}"
git -C /repo worktree remove --force $WT; rm -f $WT.clean.out $WT.patched.out
