#!/bin/bash
# tools/verify_seeded.sh <name> <patch.diff> <demo.cpp> [runs] [extra g++ flags...]
# Independent re-verification of a seeded change in a scratch worktree of /repo (outside /repo and /verif):
#   clean tree: demo passes <runs> times; patched tree: baseline tests 68/68 and demo fails at least once.
# Prints a JSON summary line "SEEDED-VERIFY {...}". The worktree is removed afterwards.
set -u
name=$1; patch=$(readlink -f $2); demo=$(readlink -f $3); runs=${4:-5}; shift 4 2>/dev/null || shift $#
extra="$@"
WT=/tmp/vs-$name
git -C /repo worktree remove --force $WT 2>/dev/null
git -C /repo worktree add -q $WT HEAD || exit 2
build_demo() {
  g++ -std=c++17 -O2 -g -I$WT/libgalois/include -I$WT/_build/libgalois/include $demo $WT/_build/libgalois/libgalois_shmem.a -lnuma -lpthread $extra -o $WT/demo.bin 2> $WT/demo.build.log
}
run_demo() { # prints number of failing runs
  local fails=0
  for i in $(seq 1 $runs); do
    GALOIS_DO_NOT_BIND_THREADS=1 timeout 300 $WT/demo.bin > $WT/demo.out 2>&1 || fails=$((fails+1))
  done
  echo $fails
}
# clean
/root/mutkit/baseline.sh $WT > $WT.base_clean.log 2>&1
build_demo || { echo "SEEDED-VERIFY {\"name\":\"$name\",\"error\":\"demo does not build on clean tree\"}"; cat $WT/demo.build.log | head; git -C /repo worktree remove --force $WT; exit 2; }
clean_fails=$(run_demo)
# patched
(cd $WT && git apply $patch) || { echo "SEEDED-VERIFY {\"name\":\"$name\",\"error\":\"patch does not apply\"}"; git -C /repo worktree remove --force $WT; exit 2; }
base=$(/root/mutkit/baseline.sh $WT 2>&1 | grep -E "BASELINE|NOT PASSED|FAILED" | tr '\n' ' ')
build_demo || { echo "SEEDED-VERIFY {\"name\":\"$name\",\"error\":\"demo does not build on patched tree\"}"; git -C /repo worktree remove --force $WT; exit 2; }
patched_fails=$(run_demo)
tail -3 $WT/demo.out | tr '\n' ' ' | cut -c1-300 > $WT.lastout
echo "SEEDED-VERIFY {\"name\":\"$name\",\"runs\":$runs,\"clean_tree_demo_failures\":$clean_fails,\"patched_tree_demo_failures\":$patched_fails,\"baseline_with_patch\":\"$base\",\"last_output\":\"$(cat $WT.lastout | tr -d '\"\\')\"}"
git -C /repo worktree remove --force $WT
rm -f $WT.base_clean.log $WT.lastout
