#!/usr/bin/env python3
"""Regenerates /verif/seeded/RESULTS.md from seeded/*/meta.json and the first lines of each README."""
import glob, json, os, re
V = "/verif/seeded"
HIST = json.load(open(V + "/HISTORY.json")) if os.path.exists(V + "/HISTORY.json") else {}
rows = []
for d in sorted(glob.glob(V + "/*/")):
    name = os.path.basename(d.rstrip("/"))
    mp = d + "meta.json"
    if not os.path.exists(mp):
        continue
    m = json.load(open(mp))
    ver = m.get("verify", {})
    if "clean_tree_demo_failures" in ver:
        vtxt = "clean: %s/%s demo runs fail; patched: %s/%s fail; baseline %s" % (
            ver.get("clean_tree_demo_failures"), ver.get("runs"), ver.get("patched_tree_demo_failures"), ver.get("runs"),
            ver.get("baseline_with_patch", "").replace("BASELINE: ", "").strip())
    elif "clean_tree_demo_exit" in ver:
        vtxt = "clean: demo exit %s; patched: demo exit %s; baseline %s" % (
            ver.get("clean_tree_demo_exit"), ver.get("patched_tree_demo_exit"),
            ver.get("baseline_with_patch", "").replace("BASELINE: ", "").strip())
    else:
        vtxt = json.dumps(ver)[:120]
    what = m.get("what", "")
    files = ""
    pd = d + "patch.diff"
    if os.path.exists(pd):
        files = ", ".join(sorted(set(re.findall(r"^\+\+\+ b/(\S+)", open(pd).read(), re.M))))
    for c in m.get("checks", []) or [{}]:
        rows.append((name, m.get("property", name.split("-")[0]), what, files, vtxt, c.get("check", "-"),
                     "CAUGHT" if c.get("caught") else ("missed" if c else "not run"),
                     "; ".join(c.get("violation_keys", [])[:3]), c.get("wall_s", ""),
                     " -> ".join(("caught" if h["caught"] else ("missed" if h["exit"] == 0 else "run aborted"))
                                 for h in HIST.get(name + " vs " + c.get("check", "-"), []))))
out = ["# Seeded changes and which check catches them", "",
       "Each change was produced by an independent sub-agent that saw only the property text and its own worktree, "
       "then re-verified by the coordinator in a scratch worktree (clean tree: demonstration passes; patched tree: the 68 "
       "baseline tests pass and the demonstration fails) and run against the quick tier of the listed check with "
       "`tools/mutant.sh` (scratch copy of /repo + patch, own build root).", "",
       "`runs so far` lists every run of that check against that change in order (a `missed` followed by `caught` means the check "
       "was strengthened in between, see DESIGN.md 9.2; `run aborted` = the run was stopped by the coordinator, e.g. a hang that "
       "the framework of that time could not convict).", "",
       "| change | breaks | files | independent verification | check | latest result | first keys | wall s | runs so far |", "|---|---|---|---|---|---|---|---|---|"]
for r in rows:
    out.append("| %s | %s %s | %s | %s | %s | **%s** | %s | %s | %s |" % (r[0], r[1], ("– " + r[2]) if r[2] else "", r[3], r[4], r[5], r[6], r[7].replace("|", "/"), r[8], r[9]))
open(V + "/RESULTS.md", "w").write("\n".join(out) + "\n")
print("\n".join(out[-len(rows):]))
