#!/usr/bin/env python3
"""Regenerates MANIFEST.json from lib/specs.py (claimed checks) and lib/manifest_static.json (hooks, notes, not_applicable)."""
import json, os, sys
V = os.path.dirname(os.path.dirname(os.path.abspath(__file__)))
sys.path.insert(0, os.path.join(V, "lib"))
import specs
static = json.load(open(os.path.join(V, "lib", "manifest_static.json")))
props = [json.loads(l)["id"] for l in open(os.path.join(V, "properties.jsonl"))]
checks = []
claimed = set(static.get("claimed", []))
for pid in props:
    if pid not in specs.SPECS or pid not in claimed:
        continue
    s = specs.SPECS[pid]
    checks.append({
        "property_id": pid,
        "quick_cmd": "bin/check %s --tier quick" % pid,
        "thorough_cmd": "bin/check %s --tier thorough" % pid,
        "evidence_file": "/verif/evidence/%s.json" % pid,
        "replay_cmd_template": "bin/check %s --replay {path}" % pid,
        "engine": "galois-runtime-monitor",
        "level_claimed": {"category": "exploration", "text": s["level_text"], "design_ref": s.get("design_ref", "DESIGN.md §4 " + pid)},
        "level_note": s["level_note"],
        "technique": s["technique"],
    })
done = set(c["property_id"] for c in checks)
na = [x for x in static.get("not_applicable", []) if x["property_id"] not in done]
for pid in props:
    if pid not in done and not any(x["property_id"] == pid for x in na):
        na.append({"property_id": pid, "reason": "check not built yet in this round (planned, see DESIGN.md); not claimed"})
m = {
    "version": 1,
    "setup_cmd": "bin/setup",
    "hooks": static["hooks"],
    "engines": [{"name": "galois-runtime-monitor", "path": "/verif/bin/check",
                 "serves_properties": [c["property_id"] for c in checks],
                 "kind_free_text": "runtime monitoring: generated hostile workloads on the real code, harness-side oracles, "
                                   "hang monitor, virtual topologies, failpoint/spin perturbation, ASan/UBSan/TSan builds"}],
    "checks": checks,
    "notes": static.get("notes", ""),
    "not_applicable": na,
}
json.dump(m, open(os.path.join(V, "MANIFEST.json"), "w"), indent=1)
print("wrote MANIFEST.json with", len(checks), "checks;", len(na), "not_applicable")
