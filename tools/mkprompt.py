#!/usr/bin/env python3
import sys
ID=sys.argv[1]; extra=sys.argv[2] if len(sys.argv)>2 else ""
t=open('/verif/tools/agent_prompt.txt').read()
print(t.replace('{ID}',ID).replace('{id}',ID.lower()).replace('{EXTRA}',extra))
