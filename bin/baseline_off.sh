#!/bin/bash
# Builds /repo with the GALOIS_VERIF guard OFF (the repository's own build dir)
# and runs the stable baseline tests listed in /root/.vp/BASELINE.json.
set -u
B=/repo/_build
if [ ! -f $B/build.ninja ]; then
  cmake -G Ninja -S /repo -B $B -DCMAKE_BUILD_TYPE=RelWithDebInfo -DCMAKE_CXX_FLAGS=-Wno-error || exit 2
fi
cmake --build $B -j16 -- -k 0 > $B/verif_build.log 2>&1 || echo "note: some targets do not build in this image (also true of the baseline); continuing"
OUT=$(mktemp -d /var/tmp/baseline.XXXXXX)
# run exactly the stable tests (the always-fail set needs downloaded inputs)
python3 - "$OUT" <<'PY'
import json,sys,re
b=json.load(open('/root/.vp/BASELINE.json'))
names=sorted(set(x.split('::')[0] for x in b['stable_pass']))
open(sys.argv[1]+'/names.txt','w').write('\n'.join(names))
rx='^('+'|'.join(re.escape(n) for n in names)+')$'
open(sys.argv[1]+'/rx.txt','w').write(rx)
PY
ctest --test-dir $B -j8 --timeout 900 -R "$(cat $OUT/rx.txt)" --output-junit $OUT/junit.xml > $OUT/ctest.log 2>&1
tail -5 $OUT/ctest.log
python3 - "$OUT" <<'PY'
import sys,xml.etree.ElementTree as ET
d=sys.argv[1]
names=open(d+'/names.txt').read().split('\n')
t=ET.parse(d+'/junit.xml').getroot()
st={}
for tc in t.iter('testcase'):
    st[tc.get('name')]=tc.get('status')
bad=[n for n in names if st.get(n)!='run']
print("baseline tests:",len(names),"passed:",len(names)-len(bad))
if bad:
    print("NOT PASSED:",bad); sys.exit(1)
PY
rc=$?
rm -rf $OUT
exit $rc
